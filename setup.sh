#!/bin/sh
# Run once after a fresh restore, offline. Builds nothing that needs the network.
set -e
cd "$(dirname "$0")"
export CARGO_NET_OFFLINE=true
mkdir -p build gen evidence replays
verus --version >/dev/null
cargo kani --version >/dev/null
# warm Verus (first start unpacks vstd) on a trivial file
printf 'use vstd::prelude::*;\nverus!{ proof fn t() ensures 1 + 1 == 2int {} }\nfn main(){}\n' > build/warm.rs
(cd build && verus warm.rs >/dev/null 2>&1) || { echo "verus does not run"; exit 1; }
# witness programs (drive the real crate; used for replays): built against /repo by path
cp /repo/Cargo.lock witness/Cargo.lock 2>/dev/null || true
(cd witness && CARGO_TARGET_DIR=../build/witness-target cargo build --offline --release --quiet) || echo "warning: witness build failed (replays will say witness-build-failed)"
echo setup ok
