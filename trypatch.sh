#!/bin/sh
# trypatch.sh <unit> <patch.diff>  : run a unit of the dev copy against a patched scratch copy of the repo
d=$(mktemp -d /tmp/tp_XXXX)
rsync -a --exclude target --exclude .git /tmp/repo_clean/ $d/
(cd $d && patch -p1 -s < "$2") || { echo PATCH FAILED; rm -rf $d; exit 1; }
cd /verif && VERIF_REPO=$d python3 dev.py "$1" 2>&1 | grep -E "^(FAIL|STATUS|UNDEC|DROPPED)" | cut -c1-260
rm -rf $d
