#!/usr/bin/env python3
"""dev helper: apply a textual mutation to a scratch copy of /repo/src and run units on it.
usage: mut.py <unit> <file> <old> <new>"""
import sys, os, shutil, tempfile, subprocess
sys.path.insert(0,'/verif')
from vf.unitrun import run_unit
unit, file, old, new = sys.argv[1:5]
d=tempfile.mkdtemp(prefix='mut_')
shutil.copytree('/repo/src', d+'/src')
p=d+'/'+file
s=open(p).read()
assert s.count(old)>=1, 'pattern not found'
s=s.replace(old,new,1)
open(p,'w').write(s)
r=run_unit(unit, repo=d, suffix='_mut')
print('STATUS', r.status, 'wall %.1fs'%r.wall)
for u in r.undecided: print('UNDECIDED:', u[:300])
for h in r.dropped_hints: print('DROPPED HINT:', h['clause'], h['tags'], h['message'])
for f in r.failures: print('FAIL', f['kind'], f.get('clause'), f.get('tags'), f['fn'], f.get('site'), '|', f['message'])
shutil.rmtree(d)
