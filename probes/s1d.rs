use vstd::prelude::*;
use std::collections::VecDeque;
use std::fs::File;
verus! {

pub const BUFFER_SIZE: usize = 1024;
pub const CR: u8 = b'\r';
pub const LF: u8 = b'\n';
pub const CRLF_LEN: usize = 2;

pub enum RequestError { Overflow, Underflow, InvalidRequest, BodyWithoutPendingRequest, HeadersWithoutPendingRequest, Other(u8) }
pub enum ConnectionError { ConnectionClosed, InvalidWrite, ParseError(RequestError), StreamReadError(i32) }

#[verifier::external_type_specification]
#[verifier::external_body]
pub struct ExFile(File);

pub struct Body { pub body: Vec<u8> }
impl Body {
    pub fn new(body: Vec<u8>) -> (r: Self) ensures r.body@ == body@ { Self { body } }
}

#[verifier::external_body]
pub struct Headers { x: u8 }
pub uninterp spec fn spec_cl(h: Headers) -> u32;
pub uninterp spec fn spec_headers_default() -> Headers;
impl Headers {
    #[verifier::external_body]
    pub fn content_length(&self) -> (r: u32) ensures r == spec_cl(*self) { unimplemented!() }
    #[verifier::external_body]
    pub fn default() -> (r: Self) ensures r == spec_headers_default() { unimplemented!() }
}
#[verifier::external_body]
pub struct RequestLine { x: u8 }
pub uninterp spec fn spec_request_line(b: Seq<u8>) -> Result<RequestLine, RequestError>;
impl RequestLine {
    #[verifier::external_body]
    pub fn try_from(request_line: &[u8]) -> (r: Result<Self, RequestError>) ensures r == spec_request_line(request_line@) { unimplemented!() }
}
pub struct Request {
    pub request_line: RequestLine,
    pub headers: Headers,
    pub body: Option<Body>,
    pub files: Vec<File>,
}

pub enum ConnectionState { WaitingForRequestLine, WaitingForHeaders, WaitingForBody, RequestReady }

pub struct HttpConnection<T> {
    pub pending_request: Option<Request>,
    pub stream: T,
    pub state: ConnectionState,
    pub buffer: [u8; BUFFER_SIZE],
    pub read_cursor: usize,
    pub body_vec: Vec<u8>,
    pub body_bytes_to_be_read: u32,
    pub parsed_requests: VecDeque<Request>,
    pub files: Vec<File>,
    pub payload_max_size: usize,
}

// ---------- spec ----------
pub struct ReqView { pub line: RequestLine, pub headers: Headers, pub body: Option<Seq<u8>>, pub files: Seq<File> }
pub open spec fn req_view(r: Request) -> ReqView {
    ReqView { line: r.request_line, headers: r.headers, body: match r.body { Some(b) => Some(b.body@), None => None }, files: r.files@ }
}
pub enum Phase { Line, Hdrs, Body, Ready }
pub struct PView {
    pub phase: Phase,
    pub carry: Seq<u8>,
    pub pending: Option<ReqView>,
    pub body_acc: Seq<u8>,
    pub body_left: nat,
    pub files: Seq<File>,
    pub delivered: Seq<ReqView>,
}
pub enum Step { Continue(PView, nat), Stop(PView), Error(RequestError) }

pub open spec fn crlf() -> Seq<u8> { seq![CR, LF] }
// first occurrence of CRLF in r
pub open spec fn is_first_crlf(r: Seq<u8>, i: int) -> bool {
    0 <= i && i + 2 <= r.len() && r[i] == CR && r[i + 1] == LF
    && forall|j: int| 0 <= j < i ==> !(#[trigger] r[j] == CR && r[j + 1] == LF)
}
pub open spec fn no_crlf(r: Seq<u8>) -> bool {
    forall|j: int| 0 <= j && j + 2 <= r.len() ==> !(#[trigger] r[j] == CR && r[j + 1] == LF)
}
pub open spec fn first_crlf(r: Seq<u8>) -> Option<int> {
    if exists|i: int| is_first_crlf(r, i) { Some(choose|i: int| is_first_crlf(r, i)) } else { None }
}
pub proof fn lemma_first_crlf_unique(r: Seq<u8>, i: int)
    requires is_first_crlf(r, i)
    ensures first_crlf(r) == Some(i)
{
    let k = choose|k: int| is_first_crlf(r, k);
    assert(is_first_crlf(r, k));
    if k < i { assert(!(r[k] == CR && r[k+1] == LF)); }
    if i < k { assert(!(r[i] == CR && r[i+1] == LF)); }
}
pub proof fn lemma_no_crlf_none(r: Seq<u8>)
    requires no_crlf(r)
    ensures first_crlf(r) is None
{
    if exists|i: int| is_first_crlf(r, i) {
        let k = choose|k: int| is_first_crlf(r, k);
        assert(!(r[k] == CR && r[k+1] == LF));
    }
}

pub open spec fn step(v: PView, r: Seq<u8>) -> Step {
    match v.phase {
        Phase::Line => match first_crlf(r) {
            Some(i) => match spec_request_line(r.subrange(0, i)) {
                Ok(rl) => Step::Continue(PView { phase: Phase::Hdrs, pending: Some(ReqView { line: rl, headers: spec_headers_default(), body: None, files: Seq::empty() }), ..v }, (i + 2) as nat),
                Err(e) => Step::Error(e),
            },
            None => if r.len() >= BUFFER_SIZE { Step::Error(RequestError::InvalidRequest) } else { Step::Stop(PView { carry: r, ..v }) },
        },
        Phase::Hdrs => arbitrary(),
        Phase::Body => {
            if v.body_left > r.len() {
                Step::Stop(PView { body_acc: v.body_acc + r, body_left: (v.body_left - r.len()) as nat, carry: Seq::empty(), ..v })
            } else {
                let full = v.body_acc + r.subrange(0, v.body_left as int);
                Step::Continue(PView { phase: Phase::Ready, body_acc: Seq::empty(), body_left: 0, pending: Some(ReqView { body: Some(full), ..v.pending.unwrap() }), ..v }, v.body_left)
            }
        },
        Phase::Ready => Step::Continue(PView { phase: Phase::Line, body_left: 0, pending: None, files: Seq::empty(),
                          delivered: v.delivered.push(ReqView { files: v.files, ..v.pending.unwrap() }), ..v }, 0),
    }
}
pub open spec fn rank(p: Phase) -> nat { if p is Ready { 1 } else { 0 } }
pub open spec fn run(v: PView, r: Seq<u8>) -> (PView, Option<RequestError>)
    decreases r.len(), rank(v.phase)
{
    match step(v, r) {
        Step::Continue(v2, k) => if k <= r.len() && (k > 0 || rank(v2.phase) < rank(v.phase)) { run(v2, r.subrange(k as int, r.len() as int)) } else { (v, None) },
        Step::Stop(v2) => (v2, None),
        Step::Error(e) => (v, Some(e)),
    }
}

#[verifier::external_body]
pub fn find(bytes: &[u8], sequence: &[u8]) -> (r: Option<usize>)
    ensures
        sequence@ == crlf() ==> match r { Some(i) => is_first_crlf(bytes@, i as int), None => no_crlf(bytes@) }
{ unimplemented!() }

#[verifier::external_body]
pub fn vdrain_to_collect<T>(v: &mut Vec<T>, r: std::ops::RangeTo<usize>) -> (out: Vec<T>)
    requires r.end <= old(v)@.len(),
    ensures out@ == old(v)@.subrange(0, r.end as int), final(v)@ == old(v)@.subrange(r.end as int, old(v)@.len() as int),
{ v.drain(r).collect() }
#[verifier::external_body]
pub fn vdrain_all_collect<T>(v: &mut Vec<T>) -> (out: Vec<T>)
    ensures out@ == old(v)@, final(v)@ == Seq::<T>::empty(),
{ v.drain(..).collect() }

impl<T> HttpConnection<T> {
    pub open spec fn phase(self) -> Phase {
        match self.state {
            ConnectionState::WaitingForRequestLine => Phase::Line,
            ConnectionState::WaitingForHeaders => Phase::Hdrs,
            ConnectionState::WaitingForBody => Phase::Body,
            ConnectionState::RequestReady => Phase::Ready,
        }
    }
    pub open spec fn view(self) -> PView {
        PView {
            phase: self.phase(),
            carry: self.buffer@.subrange(0, self.read_cursor as int),
            pending: match self.pending_request { Some(r) => Some(req_view(r)), None => None },
            body_acc: self.body_vec@,
            body_left: self.body_bytes_to_be_read as nat,
            files: self.files@,
            delivered: self.parsed_requests@.map_values(|r: Request| req_view(r)),
        }
    }
    pub open spec fn wf(self) -> bool {
        &&& self.read_cursor < BUFFER_SIZE
        &&& (!(self.phase() is Line) ==> self.pending_request is Some)
        &&& (self.phase() is Body ==> self.body_bytes_to_be_read >= 1 && self.body_vec@.len() + self.body_bytes_to_be_read == spec_cl(self.pending_request->0.headers))
        &&& (!(self.phase() is Body) ==> self.body_vec@.len() == 0)
    }
    fn parse_request_line(
        &mut self,
        start: &mut usize,
        end: usize,
    ) -> (r: Result<bool, ConnectionError>)
        requires old(self).phase() is Line,
            old(self).wf(), *old(start) <= end <= BUFFER_SIZE,
        ensures
            final(self).wf(),
            ({
                let w = old(self).buffer@.subrange(*old(start) as int, end as int);
                let v0 = PView { carry: Seq::empty(), ..old(self).view() };
                match r {
                    Ok(true) => final(self).buffer == old(self).buffer && final(self).read_cursor == old(self).read_cursor
                        && *old(start) <= *final(start) <= end
                        && step(v0, w) == Step::Continue(PView { carry: Seq::empty(), ..final(self).view() }, (*final(start) - *old(start)) as nat),
                    Ok(false) => step(v0, w) == Step::Stop(final(self).view()),
                    Err(ConnectionError::ParseError(e)) => step(v0, w) == Step::Error(e),
                    Err(_) => false,
                }
            }),
    {
        let ghost w = self.buffer@.subrange(*start as int, end as int);
        let ghost start0 = *start;
        if end < *start {
            return Err(ConnectionError::ParseError(RequestError::Underflow));
        }
        if end > self.buffer.len() {
            return Err(ConnectionError::ParseError(RequestError::Overflow));
        }
        // The slice access is safe because `end` is checked to be smaller than the buffer size
        // and larger than `start`.
        match find(&self.buffer[*start..end], &[CR, LF]) {
            Some(line_end_index) => {
                proof {
                    lemma_first_crlf_unique(w, line_end_index as int);
                    assert(self.buffer@.subrange(start0 as int, start0 + line_end_index) =~= w.subrange(0, line_end_index as int));
                }
                // The unchecked addition `start + line_end_index` is safe because `line_end_index`
                // is returned by `find` and thus guaranteed to be in-bounds. This also makes the
                // slice access safe.
                let line = &self.buffer[*start..(*start + line_end_index)];

                // The unchecked addition is safe because of the previous `find()`.
                *start = *start + line_end_index + CRLF_LEN;

                // Form the request with a valid request line, which is the bare minimum
                // for a valid request.
                self.pending_request = Some(Request {
                    request_line: RequestLine::try_from(line)
                        .map_err(|e: RequestError| -> (r: ConnectionError) ensures r == ConnectionError::ParseError(e) { ConnectionError::ParseError(e) })?,
                    headers: Headers::default(),
                    body: None,
                    files: Vec::new(),
                });
                self.state = ConnectionState::WaitingForHeaders;
                Ok(true)
            }
            None => {
                proof { lemma_no_crlf_none(w); }
                // The request line is longer than BUFFER_SIZE bytes, so the request is invalid.
                if end == BUFFER_SIZE && *start == 0 {
                    return Err(ConnectionError::ParseError(RequestError::InvalidRequest));
                } else {
                    // Move the incomplete request line to the beginning of the buffer and wait
                    // for the next `try_read` call to complete it.
                    // This can only happen if another request was sent before this one, as the
                    // limit for the length of a request line in this implementation is 1024 bytes.
                    self.shift_buffer_left(*start, end)
                        .map_err(|e: RequestError| -> (r: ConnectionError) ensures r == ConnectionError::ParseError(e) { ConnectionError::ParseError(e) })?;
                    proof { assert(self.view().carry =~= w); assert(self.view() =~= (PView { carry: w, ..PView { carry: Seq::empty(), ..old(self).view() } })); }
                }
                Ok(false)
            }
        }
    }
    fn parse_body(
        &mut self,
        line_start_index: &mut usize,
        end_cursor: usize,
    ) -> (r: Result<bool, ConnectionError>)
        requires old(self).phase() is Body,
            old(self).wf(), *old(line_start_index) <= end_cursor <= BUFFER_SIZE,
        ensures
            final(self).wf(),
            ({
                let w = old(self).buffer@.subrange(*old(line_start_index) as int, end_cursor as int);
                let v0 = PView { carry: Seq::empty(), ..old(self).view() };
                match r {
                    Ok(true) => final(self).buffer == old(self).buffer && final(self).read_cursor == old(self).read_cursor
                        && *old(line_start_index) <= *final(line_start_index) <= end_cursor
                        && step(v0, w) == Step::Continue(PView { carry: Seq::empty(), ..final(self).view() }, (*final(line_start_index) - *old(line_start_index)) as nat),
                    Ok(false) => step(v0, w) == Step::Stop(final(self).view()),
                    Err(ConnectionError::ParseError(e)) => step(v0, w) == Step::Error(e),
                    Err(_) => false,
                }
            }),
    {
        let ghost w = self.buffer@.subrange(*line_start_index as int, end_cursor as int);
        let ghost v0 = PView { carry: Seq::empty(), ..self.view() };
        // If what we have just read is not enough to complete the request and
        // there are more bytes pertaining to the body of the request.
        if end_cursor > self.buffer.len() {
            return Err(ConnectionError::ParseError(RequestError::Overflow));
        }
        let start_to_end = end_cursor
            .checked_sub(*line_start_index)
            .ok_or(ConnectionError::ParseError(RequestError::Underflow))?
            as u32;
        if self.body_bytes_to_be_read > start_to_end {
            // Append everything that we read to our current incomplete body and update
            // `body_bytes_to_be_read`.
            // The slice access is safe, otherwise `checked_sub` would have failed.
            self.body_vec
                .extend_from_slice(&self.buffer[*line_start_index..end_cursor]);
            // Safe to subtract directly as the `if` condition prevents underflow.
            self.body_bytes_to_be_read -= start_to_end;

            // Clear the buffer and reset the starting index.
            for i in 0..BUFFER_SIZE {
                self.buffer[i] = 0;
            }
            self.read_cursor = 0;
            proof {
                assert(self.view().carry =~= Seq::<u8>::empty());
                assert(self.view().body_acc =~= v0.body_acc + w);
                assert(self.view() =~= (PView { body_acc: v0.body_acc + w, body_left: (v0.body_left - w.len()) as nat, carry: Seq::empty(), ..v0 }));
            }

            return Ok(false);
        }

        // Append only the remaining necessary bytes to the body of the request.
        let line_end = line_start_index
            .checked_add(self.body_bytes_to_be_read as usize)
            .ok_or(ConnectionError::ParseError(RequestError::Overflow))?;
        // The slice access is safe as `line_end` is a sum of `line_start_index` + something else.
        self.body_vec
            .extend_from_slice(&self.buffer[*line_start_index..line_end]);
        *line_start_index = line_end;
        self.body_bytes_to_be_read = 0;

        let request = self
            .pending_request
            .as_mut()
            .ok_or(ConnectionError::ParseError(
                RequestError::BodyWithoutPendingRequest,
            ))?;
        // If there are no more bytes to be read for this request.
        // Assign the body of the request.
        let placeholder: Vec<_> = vdrain_to_collect(&mut self
            .body_vec, ..request.headers.content_length() as usize);
        request.body = Some(Body::new(placeholder));

        // If we read more bytes than we should have into the body of the request.
        if !self.body_vec.is_empty() {
            return Err(ConnectionError::ParseError(RequestError::InvalidRequest));
        }

        self.state = ConnectionState::RequestReady;
        proof {
            let full = v0.body_acc + w.subrange(0, v0.body_left as int);
            assert(self.buffer@.subrange(*old(line_start_index) as int, *line_start_index as int) =~= w.subrange(0, v0.body_left as int));
            assert(self.pending_request->0.body->0.body@ =~= full);
            assert(self.body_vec@ =~= Seq::<u8>::empty());
            assert((PView { carry: Seq::empty(), ..self.view() }) =~= (PView { phase: Phase::Ready, body_acc: Seq::empty(), body_left: 0, pending: Some(ReqView { body: Some(full), ..v0.pending.unwrap() }), ..v0 }));
        }
        Ok(true)
    }
    fn shift_buffer_left(
        &mut self,
        line_start_index: usize,
        end_cursor: usize,
    ) -> (r: Result<(), RequestError>)
        ensures
            (line_start_index <= end_cursor <= BUFFER_SIZE) ==> r is Ok,
            r is Ok ==> line_start_index <= end_cursor <= BUFFER_SIZE
                && final(self).read_cursor == end_cursor - line_start_index
                && final(self).buffer@.subrange(0, end_cursor - line_start_index) == old(self).buffer@.subrange(line_start_index as int, end_cursor as int),
            final(self).pending_request == old(self).pending_request, final(self).state == old(self).state, final(self).body_vec == old(self).body_vec,
            final(self).body_bytes_to_be_read == old(self).body_bytes_to_be_read, final(self).parsed_requests == old(self).parsed_requests, final(self).files == old(self).files,
            r is Err ==> final(self).read_cursor == old(self).read_cursor,
    {
        if end_cursor > self.buffer.len() {
            return Err(RequestError::Overflow);
        }
        // We don't want to shift something that is already at the beginning.
        let delta_bytes = end_cursor
            .checked_sub(line_start_index)
            .ok_or(RequestError::Underflow)?;
        if line_start_index != 0 {
            // Move the bytes from `line_start_index` to the beginning of the buffer.
            for cursor in 0..delta_bytes
                invariant
                    delta_bytes == end_cursor - line_start_index, end_cursor <= BUFFER_SIZE, line_start_index > 0,
                    forall|i: int| 0 <= i < cursor ==> self.buffer[i] == old(self).buffer[line_start_index + i],
                    forall|i: int| cursor <= i < BUFFER_SIZE ==> self.buffer[i] == old(self).buffer[i],
                    self.pending_request == old(self).pending_request, self.state == old(self).state, self.body_vec == old(self).body_vec, self.read_cursor == old(self).read_cursor,
                    self.body_bytes_to_be_read == old(self).body_bytes_to_be_read, self.parsed_requests == old(self).parsed_requests, self.files == old(self).files,
            {
                // The unchecked addition is safe, guaranteed by the result of the substraction
                // above.
                // The slice access is safe, as `line_start_index + cursor` is <= `end_cursor`,
                // checked at the start of the function.
                self.buffer[cursor] = self.buffer[line_start_index + cursor];
            }

            // Clear the rest of the buffer.
            for cursor in delta_bytes..end_cursor
                invariant
                    delta_bytes == end_cursor - line_start_index, end_cursor <= BUFFER_SIZE,
                    forall|i: int| 0 <= i < delta_bytes ==> self.buffer[i] == old(self).buffer[line_start_index + i],
                    self.pending_request == old(self).pending_request, self.state == old(self).state, self.body_vec == old(self).body_vec, self.read_cursor == old(self).read_cursor,
                    self.body_bytes_to_be_read == old(self).body_bytes_to_be_read, self.parsed_requests == old(self).parsed_requests, self.files == old(self).files,
            {
                self.buffer[cursor] = 0;
            }
        }

        // Update `read_cursor`.
        self.read_cursor = delta_bytes;
        Ok(())
    }
}
} // verus!
fn main() {}
