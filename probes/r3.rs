
use vstd::prelude::*;
use std::fs::File;
use std::str::from_utf8;
verus! {
pub const CR: u8 = b'\r';
pub const LF: u8 = b'\n';
pub const SP: u8 = b' ';
pub const CRLF_LEN: usize = 2;
pub enum RequestError { Overflow, Underflow, InvalidRequest, InvalidUri(&'static str), InvalidHttpMethod(&'static str), InvalidHttpVersion(&'static str) }

#[verifier::external_type_specification]
#[verifier::external_body]
pub struct ExFile(File);
#[verifier::external_type_specification]
#[verifier::external_body]
pub struct ExUtf8Error(std::str::Utf8Error);
pub uninterp spec fn spec_is_utf8(b: Seq<u8>) -> bool;
pub uninterp spec fn spec_str_bytes(s: &str) -> Seq<u8>;
pub assume_specification [std::str::from_utf8] (b: &[u8]) -> (r: std::result::Result<&str, std::str::Utf8Error>)
    ensures r is Ok <==> spec_is_utf8(b@), r matches Ok(s) ==> spec_str_bytes(s) == b@;


#[derive(Clone, Copy, PartialEq, Eq)]
pub enum Method { Get, Put, Patch }
#[derive(Clone, Copy, PartialEq, Eq)]
pub enum Version { Http10, Http11 }
impl Method {
    #[verifier::external_body]
    pub fn try_from(bytes: &[u8]) -> (r: Result<Self, RequestError>) { unimplemented!() }
    #[verifier::external_body]
    pub fn raw(self) -> (r: &'static [u8]) ensures r@.len() == (match self { Method::Get => 3int, Method::Put => 3int, Method::Patch => 5int }) { unimplemented!() }
}
impl Version {
    #[verifier::external_body]
    pub fn try_from(bytes: &[u8]) -> (r: Result<Self, RequestError>) { unimplemented!() }
    #[verifier::external_body]
    pub fn raw(self) -> (r: &'static [u8]) ensures r@.len() == 8 { unimplemented!() }
}
pub struct Body { pub body: Vec<u8> }
impl Body {
    #[verifier::external_body]
    pub fn new<T: Into<Vec<u8>>>(body: T) -> (r: Self) { Self { body: body.into() } }
}
#[verifier::external_body]
pub struct Headers { x: u8 }
impl Headers {
    #[verifier::external_body]
    pub fn default() -> (r: Self) { unimplemented!() }
    #[verifier::external_body]
    pub fn try_from(bytes: &[u8]) -> (r: Result<Headers, RequestError>) { unimplemented!() }
    #[verifier::external_body]
    pub fn content_length(&self) -> (r: u32) { unimplemented!() }
}
pub struct Uri { pub string: String }
impl Uri {
    #[verifier::external_body]
    fn new(slice: &str) -> Self { unimplemented!() }
        fn try_from(bytes: &[u8]) -> Result<Self, RequestError> {
        if bytes.is_empty() {
            return Err(RequestError::InvalidUri("Empty URI not allowed."));
        }
        let utf8_slice =
            from_utf8(bytes).map_err(|_e| RequestError::InvalidUri("Cannot parse URI as UTF-8."))?;
        Ok(Self::new(utf8_slice))
    }
}
type RequestLineParts<'a> = (&'a [u8], &'a [u8], &'a [u8]);
#[verifier::external_body]
pub fn find(bytes: &[u8], sequence: &[u8]) -> (r: Option<usize>)
    ensures
        match r { Some(i) => 0 <= i && i + sequence@.len() <= bytes@.len() && bytes@.subrange(i as int, i + sequence@.len()) == sequence@, None => true }
{ unimplemented!() }

pub struct RequestLine {
    method: Method,
    uri: Uri,
    http_version: Version,
}
impl RequestLine {
    fn parse_request_line(
        request_line: &[u8],
    ) -> std::result::Result<RequestLineParts, RequestError> {
        if let Some(method_end) = find(request_line, &[SP]) {
            // The slice access is safe because `find` validates that `method_end` < `request_line` size.
            let method = &request_line[..method_end];

            // `uri_start` <= `request_line` size.
            let uri_start = method_end.checked_add(1).ok_or(RequestError::Overflow)?;

            // Slice access is safe because `uri_start` <= `request_line` size.
            // If `uri_start` == `request_line` size, then `uri_and_version` will be an empty slice.
            let uri_and_version = &request_line[uri_start..];

            if let Some(uri_end) = find(uri_and_version, &[SP]) {
                // Slice access is safe because `find` validates that `uri_end` < `uri_and_version` size.
                let uri = &uri_and_version[..uri_end];

                // `version_start` <= `uri_and_version` size.
                let version_start = uri_end.checked_add(1).ok_or(RequestError::Overflow)?;

                // Slice access is safe because `version_start` <= `uri_and_version` size.
                let version = &uri_and_version[version_start..];

                return Ok((method, uri, version));
            }
        }

        // Request Line can be valid only if it contains the method, uri and version separated with SP.
        Err(RequestError::InvalidRequest)
    }
    pub fn try_from(request_line: &[u8]) -> Result<Self, RequestError> {
        let (method, uri, version) = Self::parse_request_line(request_line)?;

        Ok(Self {
            method: Method::try_from(method)?,
            uri: Uri::try_from(uri)?,
            http_version: Version::try_from(version)?,
        })
    }
    fn min_len() -> usize {
        // Addition is safe because these are small constants.
        Method::Get.raw().len() + 1 + Version::Http10.raw().len() + 2
    }
}
pub struct Request {
    pub request_line: RequestLine,
    pub headers: Headers,
    pub body: Option<Body>,
    pub files: Vec<File>,
}
impl Request {
    pub fn try_from(byte_stream: &[u8], max_len: Option<usize>) -> Result<Self, RequestError> {
        // If a size limit is provided, verify the request length does not exceed it.
        if let Some(limit) = max_len {
            if byte_stream.len() >= limit {
                return Err(RequestError::InvalidRequest);
            }
        }

        // The first line of the request is the Request Line. The line ending is CR LF.
        let request_line_end = match find(byte_stream, &[CR, LF]) {
            Some(len) => len,
            // If no CR LF is found in the stream, the request format is invalid.
            None => return Err(RequestError::InvalidRequest),
        };

        // Slice access is safe because `find` validates that `request_line_end` < `byte_stream` size.
        let request_line_bytes = &byte_stream[..request_line_end];
        if request_line_bytes.len() < RequestLine::min_len() {
            return Err(RequestError::InvalidRequest);
        }

        let request_line = RequestLine::try_from(request_line_bytes)?;

        // Find the next CR LF CR LF sequence in our buffer starting at the end on the Request
        // Line, including the trailing CR LF previously found.
        match find(&byte_stream[request_line_end..], &[CR, LF, CR, LF]) {
            // If we have found a CR LF CR LF at the end of the Request Line, the request
            // is complete.
            Some(0) => Ok(Self {
                request_line,
                headers: Headers::default(),
                body: None,
                files: Vec::new(),
            }),
            Some(headers_end) => {
                // Parse the request headers.
                // Start by removing the leading CR LF from them.
                // The addition is safe because `find()` guarantees that `request_line_end`
                // precedes 2 `CRLF` sequences.
                let headers_start = request_line_end + CRLF_LEN;
                // Slice access is safe because starting from `request_line_end` there are at least two CRLF
                // (enforced by `find` at the start of this method).
                let headers_and_body = &byte_stream[headers_start..];
                // Because we advanced the start with CRLF_LEN, we now have to subtract CRLF_LEN
                // from the end in order to keep the same window.
                // Underflow is not possible here because `byte_stream[request_line_end..]` starts with CR LF,
                // so `headers_end` can be either zero (this case is treated separately in the first match arm)
                // or >= 3 (current case).
                let headers_end = headers_end - CRLF_LEN;
                // Slice access is safe because `headers_end` is checked above
                // (`find` gives a valid position, and  subtracting 2 can't underflow).
                let headers = Headers::try_from(&headers_and_body[..headers_end])?;

                // Parse the body of the request.
                // Firstly check if we have a body.
                let body = match headers.content_length() {
                    0 => {
                        // No request body.
                        None
                    }
                    content_length => {
                        if request_line.method == Method::Get {
                            return Err(RequestError::InvalidRequest);
                        }
                        // Multiplication is safe because `CRLF_LEN` is a small constant.
                        // Addition is also safe because `headers_end` started out as the result
                        // of `find(<something>, CRLFCRLF)`, then `CRLF_LEN` was subtracted from it.
                        let crlf_end = headers_end + 2 * CRLF_LEN;
                        // This can't underflow because `headers_and_body.len()` >= `crlf_end`.
                        let body_len = headers_and_body.len() - crlf_end;
                        // Headers suggest we have a body, but the buffer is shorter than the specified
                        // content length.
                        if body_len < content_length as usize {
                            return Err(RequestError::InvalidRequest);
                        }
                        // Slice access is safe because `crlf_end` is the index after two CRLF
                        // (it is <= `headers_and_body` size).
                        let body_as_bytes = &headers_and_body[crlf_end..];
                        // If the actual length of the body is different than the `Content-Length` value
                        // in the headers, then this request is invalid.
                        if body_as_bytes.len() == content_length as usize {
                            Some(Body::new(body_as_bytes))
                        } else {
                            return Err(RequestError::InvalidRequest);
                        }
                    }
                };

                Ok(Self {
                    request_line,
                    headers,
                    body,
                    files: Vec::new(),
                })
            }
            // If we can't find a CR LF CR LF even though the request should have headers
            // the request format is invalid.
            None => Err(RequestError::InvalidRequest),
        }
    }
}
}
fn main() {}
