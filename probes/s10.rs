
use vstd::prelude::*;
use std::collections::HashMap;
use std::os::unix::io::{AsRawFd, FromRawFd, RawFd};
use std::os::unix::net::{UnixListener, UnixStream};
use vmm_sys_util::{epoll, eventfd::EventFd};
use std::io::{Read, Write};
static SERVER_FULL_ERROR_MESSAGE: &[u8] = b"HTTP/1.1 503\r\n";
verus! {
#[derive(Debug)]
pub enum RequestError { Overflow }
#[verifier::external_type_specification]
#[verifier::external_body]
pub struct ExIoError(std::io::Error);
#[derive(Debug)]
pub struct Errno { pub e: i32 }
impl Errno { 
  #[verifier::external_body]
  pub fn to_string(&self) -> String { unimplemented!() } }
#[derive(Debug)]
pub enum ConnectionError { ConnectionClosed, InvalidWrite, ParseError(RequestError), StreamReadError(Errno), StreamWriteError(std::io::Error) }
#[derive(Debug)]
pub enum ServerError { ConnectionError(ConnectionError), IOError(std::io::Error), Overflow, Underflow, ServerFull, ShutdownEvent }
type Result<T> = std::result::Result<T, ServerError>;
pub struct Request { pub x: u8 }
pub struct Response { pub x: u8 }
pub enum Version { Http10, Http11 }
pub enum StatusCode { BadRequest, InternalServerError }
pub struct Body { pub body: Vec<u8> }
impl Body {
    #[verifier::external_body]
    pub fn new<T: Into<Vec<u8>>>(body: T) -> (r: Self) { Self { body: body.into() } }
}
impl Response {
    #[verifier::external_body]
    pub fn new(v: Version, s: StatusCode) -> Self { unimplemented!() }
    #[verifier::external_body]
    pub fn set_body(&mut self, b: Body) { unimplemented!() }
}
pub struct HttpConnection<T> { pub stream: T, pub pw: bool }
impl<T> HttpConnection<T> {
    #[verifier::external_body]
    pub fn new(stream: T) -> Self { unimplemented!() }
    #[verifier::external_body]
    pub fn set_payload_max_size(&mut self, n: usize) { unimplemented!() }

    #[verifier::external_body]
    pub fn try_read(&mut self) -> (r: std::result::Result<(), ConnectionError>)
        ensures r matches Err(e) ==> !(e is InvalidWrite) && !(e is StreamWriteError)
    { unimplemented!() }
    #[verifier::external_body]
    pub fn try_write(&mut self) -> (r: std::result::Result<(), ConnectionError>) { unimplemented!() }
    #[verifier::external_body]
    pub fn pop_parsed_request(&mut self) -> Option<Request> { unimplemented!() }
    #[verifier::external_body]
    pub fn enqueue_response(&mut self, response: Response) { unimplemented!() }
    #[verifier::external_body]
    pub fn clear_write_buffer(&mut self) { unimplemented!() }
    #[verifier::external_body]
    pub fn pending_write(&self) -> bool { unimplemented!() }
}
#[derive(PartialOrd, PartialEq)]
enum ClientConnectionState {
    AwaitingIncoming,
    AwaitingOutgoing,
    Closed,
}
struct ClientConnection<T> {
    connection: HttpConnection<T>,
    state: ClientConnectionState,
    in_flight_response_count: u32,
}
impl<T> ClientConnection<T> {
    fn new(connection: HttpConnection<T>) -> Self {
        Self {
            connection,
            state: ClientConnectionState::AwaitingIncoming,
            in_flight_response_count: 0,
        }
    }

    #[verifier::exec_allows_no_decreases_clause]
    fn read(&mut self) -> Result<Vec<Request>> {
        // Data came into the connection.
        let mut parsed_requests = vec![];
        match self.connection.try_read() {
            Err(ConnectionError::ConnectionClosed) => {
                // Connection timeout.
                self.state = ClientConnectionState::Closed;
                // We don't want to propagate this to the server and we will
                // return no requests and wait for the connection to become
                // safe to drop.
                return Ok(vec![]);
            }
            Err(ConnectionError::StreamReadError(inner)) => {
                // Reading from the connection failed.
                // We should try to write an error message regardless.
                let mut internal_error_response =
                    Response::new(Version::Http11, StatusCode::InternalServerError);
                internal_error_response.set_body(Body::new(inner.to_string()));
                self.connection.enqueue_response(internal_error_response);
            }
            Err(ConnectionError::ParseError(inner)) => {
                // An error occurred while parsing the read bytes.
                // Check if there are any valid parsed requests in the queue.
                while let Some(_discarded_request) = self.connection.pop_parsed_request() {}

                // Send an error response for the request that gave us the error.
                let mut error_response = Response::new(Version::Http11, StatusCode::BadRequest);
                error_response.set_body(Body::new(format!(
                    "{{ \"error\": \"{}\nAll previous unanswered requests will be dropped.\" }}",
                    inner
                )));
                self.connection.enqueue_response(error_response);
            }
            Err(ConnectionError::InvalidWrite) | Err(ConnectionError::StreamWriteError(_)) => {
                // This is unreachable because `HttpConnection::try_read()` cannot return this error variant.
                unreachable!();
            }
            Ok(()) => {
                while let Some(request) = self.connection.pop_parsed_request() {
                    // Add all valid requests to `parsed_requests`.
                    parsed_requests.push(request);
                }
            }
        }
        self.in_flight_response_count = self
            .in_flight_response_count
            .checked_add(parsed_requests.len() as u32)
            .ok_or(ServerError::Overflow)?;
        // If the state of the connection has changed, we need to update
        // the event set in the `epoll` structure.
        if self.connection.pending_write() {
            self.state = ClientConnectionState::AwaitingOutgoing;
        }

        Ok(parsed_requests)
    }

    fn write(&mut self) -> Result<()> {
        // The stream is available for writing.
        match self.connection.try_write() {
            Err(ConnectionError::ConnectionClosed) | Err(ConnectionError::StreamWriteError(_)) => {
                // Writing to the stream failed so it will be removed.
                self.state = ClientConnectionState::Closed;
            }
            Err(ConnectionError::InvalidWrite) => {
                // A `try_write` call was performed on a connection that has nothing
                // to write.
                return Err(ServerError::ConnectionError(ConnectionError::InvalidWrite));
            }
            _ => {
                // Check if we still have bytes to write for this connection.
                if !self.connection.pending_write() {
                    self.state = ClientConnectionState::AwaitingIncoming;
                }
            }
        }
        Ok(())
    }

    fn enqueue_response(&mut self, response: Response) -> Result<()> {
        if self.state != ClientConnectionState::Closed {
            self.connection.enqueue_response(response);
        }
        self.in_flight_response_count = self
            .in_flight_response_count
            .checked_sub(1)
            .ok_or(ServerError::Underflow)?;
        Ok(())
    }

    /// Discards all pending writes from the inner connection.
    fn clear_write_buffer(&mut self) {
        self.connection.clear_write_buffer();
    }

    // Returns `true` if the connection is closed and safe to drop.
    fn is_done(&self) -> bool {
        self.state == ClientConnectionState::Closed
            && !self.connection.pending_write()
            && self.in_flight_response_count == 0
    }
}


const MAX_CONNECTIONS: usize = 10;
pub struct ServerRequest { pub request: Request, id: u64 }
impl ServerRequest { pub fn new(request: Request, id: u64) -> Self { Self { request, id } } }
pub struct ServerResponse { response: Response, id: u64 }
pub struct HttpServer {
    socket: UnixListener,
    epoll: epoll::Epoll,
    kill_switch: Option<EventFd>,
    connections: HashMap<RawFd, ClientConnection<UnixStream>>,
    payload_max_size: usize,
}
impl HttpServer {
    pub fn requests(&mut self) -> Result<Vec<ServerRequest>> {
        let mut parsed_requests: Vec<ServerRequest> = vec![];
        // Possible events coming from FDs: 1 + 1 + MAX_CONNECTIONS:
        // exit-eventfd, sock-listen-fd, active-connections-fds.
        let mut events = [epoll::EpollEvent::default(); MAX_CONNECTIONS + 2];
        // This is a wrapper over the syscall `epoll_wait` and it will block the
        // current thread until at least one event is received.
        // The received notifications will then populate the `events` array with
        // `event_count` elements, where 1 <= event_count <= MAX_CONNECTIONS + 2.
        let event_count = match self.epoll.wait(-1, &mut events[..]) {
            Ok(event_count) => event_count,
            Err(e) if e.raw_os_error() == Some(libc::EINTR) => 0,
            Err(e) => return Err(ServerError::IOError(e)),
        };

        // Getting the file descriptor for kill switch.
        // If there is no kill switch fd, we use value -1 as an invalid fd.
        let kill_fd = self.kill_switch.as_ref().map_or(-1, |ks| ks.as_raw_fd());

        // We only iterate over first `event_count` events and discard empty elements
        // at the end of the array.
        for e in events[..event_count].iter() {
            // Check the file descriptor which produced the notification `e`.
            // It could be that we need to shutdown, or have a new connection, or
            // one of our open connections is ready to exchange data with a client.
            if e.fd() == kill_fd {
                // Report that the kill switch was triggered.
                return Err(ServerError::ShutdownEvent);
            } else if e.fd() == self.socket.as_raw_fd() {
                // We have received a notification on the listener socket, which
                // means we have a new connection to accept.
                match self.handle_new_connection() {
                    // If the server is full, we send a message to the client
                    // notifying them that we will close the connection, then
                    // we discard it.
                    Err(ServerError::ServerFull) => {
                        self.socket
                            .accept()
                            .map_err(|e| ServerError::IOError(e))
                            .and_then(move |p: (UnixStream, std::os::unix::net::SocketAddr)| { let (mut stream, _x) = p;
                                stream
                                    .write(SERVER_FULL_ERROR_MESSAGE)
                                    .map_err(|e| ServerError::IOError(e))
                            })?;
                    }
                    // An internal error will compromise any in-flight requests.
                    Err(error) => return Err(error),
                    Ok(()) => {}
                };
            } else {
                // We have a notification on one of our open connections.
                let fd = e.fd();
                let client_connection = self.connections.get_mut(&fd).unwrap();

                // If we receive a hang up on a connection, we clear the write buffer and set
                // the connection state to closed to mark it ready for removal from the
                // connections map, which will gracefully close the socket.
                // The connection is also marked for removal when encountering `EPOLLERR`,
                // since this is an "error condition happened on the associated file
                // descriptor", according to the `epoll_ctl` man page.
                if e.event_set().contains(epoll::EventSet::ERROR)
                    || e.event_set().contains(epoll::EventSet::HANG_UP)
                    || e.event_set().contains(epoll::EventSet::READ_HANG_UP)
                {
                    client_connection.clear_write_buffer();
                    client_connection.state = ClientConnectionState::Closed;
                    continue;
                }

                if e.event_set().contains(epoll::EventSet::IN) {
                    // We have bytes to read from this connection.
                    // If our `read` yields `Request` objects, we wrap them with an ID before
                    // handing them to the user.
                    parsed_requests.append(
                        &mut client_connection
                            .read()?
                            .into_iter()
                            .map(|request| ServerRequest::new(request, e.data()))
                            .collect(),
                    );
                    // If the connection was incoming before we read and we now have to write
                    // either an error message or an `expect` response, we change its `epoll`
                    // event set to notify us when the stream is ready for writing.
                    if client_connection.state == ClientConnectionState::AwaitingOutgoing {
                        Self::epoll_mod(
                            &self.epoll,
                            fd,
                            epoll::EventSet::OUT | epoll::EventSet::READ_HANG_UP,
                        )?;
                    }
                } else if e.event_set().contains(epoll::EventSet::OUT) {
                    // We have bytes to write on this connection.
                    client_connection.write()?;
                    // If the connection was outgoing before we tried to write the responses
                    // and we don't have any more responses to write, we change the `epoll`
                    // event set to notify us when we have bytes to read from the stream.
                    if client_connection.state == ClientConnectionState::AwaitingIncoming {
                        Self::epoll_mod(
                            &self.epoll,
                            fd,
                            epoll::EventSet::IN | epoll::EventSet::READ_HANG_UP,
                        )?;
                    }
                }
            }
        }

        // Remove dead connections.
        let epoll = &self.epoll;
        self.connections.retain(|rawfd, client_connection| {
            if client_connection.is_done() {
                // The rawfd should have been registered to the epoll fd.
                Self::epoll_del(epoll, *rawfd).unwrap();
                false
            } else {
                true
            }
        });

        Ok(parsed_requests)
    }
    pub fn flush_outgoing_writes(&mut self) {
        for (_, connection) in self.connections.iter_mut() {
            while connection.state == ClientConnectionState::AwaitingOutgoing {
                if let Err(e) = connection.write() {
                    if let ServerError::ConnectionError(ConnectionError::InvalidWrite) = e {
                        // Nothing is logged since an InvalidWrite means we have successfully
                        // flushed the connection
                    }
                    break;
                }
            }
        }
    }
    pub fn respond(&mut self, response: ServerResponse) -> Result<()> {
        if let Some(client_connection) = self.connections.get_mut(&(response.id as i32)) {
            // If the connection was incoming before we enqueue the response, we change its
            // `epoll` event set to notify us when the stream is ready for writing.
            if let ClientConnectionState::AwaitingIncoming = client_connection.state {
                client_connection.state = ClientConnectionState::AwaitingOutgoing;
                Self::epoll_mod(
                    &self.epoll,
                    response.id as RawFd,
                    epoll::EventSet::OUT | epoll::EventSet::READ_HANG_UP,
                )?;
            }
            client_connection.enqueue_response(response.response)?;
        }
        Ok(())
    }
    fn handle_new_connection(&mut self) -> Result<()> {
        if self.connections.len() == MAX_CONNECTIONS {
            // If we want a replacement policy for connections
            // this is where we will have it.
            return Err(ServerError::ServerFull);
        }

        self.socket
            .accept()
            .map_err(|e| ServerError::IOError(e))
            .and_then(|p: (UnixStream, std::os::unix::net::SocketAddr)| { let (stream, _x) = p;
                // `HttpConnection` is supposed to work with non-blocking streams.
                stream
                    .set_nonblocking(true)
                    .map(|_u| stream)
                    .map_err(|e| ServerError::IOError(e))
            })
            .and_then(|stream| {
                // Add the stream to the `epoll` structure and listen for bytes to be read.
                let raw_fd = stream.as_raw_fd();
                Self::epoll_add(&self.epoll, raw_fd)?;
                let mut conn = HttpConnection::new(stream);
                conn.set_payload_max_size(self.payload_max_size);
                // Then add it to our open connections.
                self.connections.insert(raw_fd, ClientConnection::new(conn));
                Ok(())
            })
    }
    fn epoll_mod(epoll: &epoll::Epoll, stream_fd: RawFd, evset: epoll::EventSet) -> Result<()> {
        let event = epoll::EpollEvent::new(evset, stream_fd as u64);
        epoll
            .ctl(epoll::ControlOperation::Modify, stream_fd, event)
            .map_err(|e| ServerError::IOError(e))
    }
    fn epoll_add(epoll: &epoll::Epoll, stream_fd: RawFd) -> Result<()> {
        epoll
            .ctl(
                epoll::ControlOperation::Add,
                stream_fd,
                epoll::EpollEvent::new(
                    epoll::EventSet::IN | epoll::EventSet::READ_HANG_UP,
                    stream_fd as u64,
                ),
            )
            .map_err(|e| ServerError::IOError(e))
    }
    fn epoll_del(epoll: &epoll::Epoll, stream_fd: RawFd) -> Result<()> {
        epoll
            .ctl(
                epoll::ControlOperation::Delete,
                stream_fd,
                epoll::EpollEvent::new(epoll::EventSet::IN, stream_fd as u64),
            )
            .map_err(|e| ServerError::IOError(e))
    }
    pub fn enqueue_responses(&mut self, responses: Vec<ServerResponse>) -> Result<()> {
        for response in responses {
            self.respond(response)?;
        }

        Ok(())
    }
}
}
impl std::fmt::Display for RequestError { fn fmt(&self, f: &mut std::fmt::Formatter) -> std::fmt::Result { Ok(()) } }
fn main() {}
