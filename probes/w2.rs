
#![feature(allocator_api)]
use vstd::prelude::*;
use std::collections::VecDeque;
use std::io::{Read, Write};
verus! {
#[verifier::external_type_specification]
#[verifier::external_body]
pub struct ExIoError(std::io::Error);
#[verifier::external_type_specification]
pub struct ExErrorKind(std::io::ErrorKind);

pub uninterp spec fn spec_is_interrupted(e: &std::io::Error) -> bool;
pub assume_specification [std::io::Error::kind] (e: &std::io::Error) -> (k: std::io::ErrorKind)
    ensures (k == std::io::ErrorKind::Interrupted) == spec_is_interrupted(e);
pub assume_specification [<std::io::ErrorKind as PartialEq>::eq] (a: &std::io::ErrorKind, b: &std::io::ErrorKind) -> (r: bool)
    ensures r == (*a == *b);

pub assume_specification<T, A: std::alloc::Allocator> [std::collections::VecDeque::<T, A>::is_empty] (q: &std::collections::VecDeque<T, A>) -> (r: bool)
    ensures r == (q@.len() == 0);

pub uninterp spec fn written<T: ?Sized>(s: &T) -> Seq<u8>;
pub uninterp spec fn write_calls<T: ?Sized>(s: &T) -> nat;

#[verifier::external_trait_specification]
pub trait ExWrite {
    type ExternalTraitSpecificationFor: std::io::Write;
    fn write(&mut self, buf: &[u8]) -> (r: std::io::Result<usize>)
        ensures
            write_calls(final(self)) == write_calls(old(self)) + 1,
            match r {
                Ok(n) => n <= buf@.len() && written(final(self)) == written(old(self)) + buf@.subrange(0, n as int),
                Err(_) => written(final(self)) == written(old(self)),
            };
}

pub enum ConnectionError { ConnectionClosed, InvalidWrite, StreamWriteError(std::io::Error) }

pub struct Response { pub v: u8 }
pub uninterp spec fn spec_ser(r: Response) -> Seq<u8>;
impl Response {
    #[verifier::external_body]
    pub fn write_all(&self, buf: &mut Vec<u8>) -> (r: Result<(), std::io::Error>)
        ensures r is Ok, final(buf)@ == old(buf)@ + spec_ser(*self), spec_ser(*self).len() > 0
    { Ok(()) }
}
#[verifier::external_body]
pub fn vdrain_to_drop<T>(v: &mut Vec<T>, r: std::ops::RangeTo<usize>)
    requires r.end <= old(v)@.len(),
    ensures final(v)@ == old(v)@.subrange(r.end as int, old(v)@.len() as int),
{ v.drain(r); }

pub struct HttpConnection<T> {
    pub stream: T,
    pub response_queue: VecDeque<Response>,
    pub response_buffer: Option<Vec<u8>>,
}

pub open spec fn flat(q: Seq<Response>) -> Seq<u8> decreases q.len() {
    if q.len() == 0 { Seq::empty() } else { spec_ser(q[0]) + flat(q.subrange(1, q.len() as int)) }
}

impl<T: Write> HttpConnection<T> {
    pub open spec fn pending(self) -> Seq<u8> {
        (match self.response_buffer { Some(v) => v@, None => Seq::empty() }) + flat(self.response_queue@)
    }
    pub open spec fn wf(self) -> bool {
        self.response_buffer matches Some(v) ==> v@.len() > 0
    }
    pub fn try_write(&mut self) -> (r: Result<(), ConnectionError>)
        requires old(self).wf(),
        ensures final(self).wf(),
            write_calls(&final(self).stream) <= write_calls(&old(self).stream) + 1,
            r is Ok ==> exists|k: int| 0 <= k <= old(self).pending().len() && #[trigger] old(self).pending().subrange(0, k) + final(self).pending() == old(self).pending()
                 && written(&final(self).stream) == written(&old(self).stream) + old(self).pending().subrange(0, k),
    {
        if self.response_buffer.is_none() {
            if let Some(response) = self.response_queue.pop_front() {
                let mut response_buffer_vec: Vec<u8> = Vec::new();
                response
                    .write_all(&mut response_buffer_vec)
                    .map_err(|e| ConnectionError::StreamWriteError(e))?;
                self.response_buffer = Some(response_buffer_vec);
            } else {
                return Err(ConnectionError::InvalidWrite);
            }
        }

        let mut response_fully_written = false;
        let mut connection_closed = false;

        if let Some(response_buffer_vec) = self.response_buffer.as_mut() {
            let bytes_to_be_written = response_buffer_vec.len();
            match self.stream.write(response_buffer_vec.as_slice()) {
                Ok(0) => connection_closed = true,
                Ok(bytes_written) => {
                    if bytes_written != bytes_to_be_written {
                        vdrain_to_drop(response_buffer_vec, ..bytes_written);
                    } else {
                        response_fully_written = true;
                    }
                }
                Err(e) if e.kind() == std::io::ErrorKind::Interrupted => {}
                Err(_) => connection_closed = true,
            }
        }

        if connection_closed {
            self.clear_write_buffer();
            return Err(ConnectionError::ConnectionClosed);
        } else if response_fully_written {
            self.response_buffer.take();
        }

        Ok(())
    }
    pub fn clear_write_buffer(&mut self) {
        self.response_queue.clear();
        self.response_buffer.take();
    }
    pub fn enqueue_response(&mut self, response: Response) {
        self.response_queue.push_back(response);
    }
    pub fn pending_write(&self) -> bool {
        self.response_buffer.is_some() || !self.response_queue.is_empty()
    }
}
}
fn main() {}
