use vstd::prelude::*;
verus! {

pub const BUFFER_SIZE: usize = 1024;

pub enum RequestError { Overflow, Underflow, InvalidRequest }

pub struct Conn {
    pub buffer: [u8; BUFFER_SIZE],
    pub read_cursor: usize,
}

impl Conn {
    fn shift_buffer_left(
        &mut self,
        line_start_index: usize,
        end_cursor: usize,
    ) -> (r: Result<(), RequestError>)
        ensures
            r is Ok ==> line_start_index <= end_cursor <= BUFFER_SIZE
                && final(self).read_cursor == end_cursor - line_start_index
                && forall|i: int| 0 <= i < end_cursor - line_start_index ==> final(self).buffer[i] == old(self).buffer[line_start_index + i],
    {
        if end_cursor > self.buffer.len() {
            return Err(RequestError::Overflow);
        }
        // We don't want to shift something that is already at the beginning.
        let delta_bytes = end_cursor
            .checked_sub(line_start_index)
            .ok_or(RequestError::Underflow)?;
        if line_start_index != 0 {
            // Move the bytes from `line_start_index` to the beginning of the buffer.
            for cursor in 0..delta_bytes 
                invariant
                    delta_bytes == end_cursor - line_start_index,
                    end_cursor <= BUFFER_SIZE,
                    line_start_index > 0,
                    forall|i: int| 0 <= i < cursor ==> self.buffer[i] == old(self).buffer[line_start_index + i],
                    forall|i: int| cursor <= i < BUFFER_SIZE ==> self.buffer[i] == old(self).buffer[i],
            {
                self.buffer[cursor] = self.buffer[line_start_index + cursor];
            }

            // Clear the rest of the buffer.
            for cursor in delta_bytes..end_cursor 
                invariant
                    delta_bytes == end_cursor - line_start_index,
                    end_cursor <= BUFFER_SIZE,
                    forall|i: int| 0 <= i < delta_bytes ==> self.buffer[i] == old(self).buffer[line_start_index + i],
            {
                self.buffer[cursor] = 0;
            }
        }

        // Update `read_cursor`.
        self.read_cursor = delta_bytes;
        Ok(())
    }
}

} // verus!
fn main() {}
