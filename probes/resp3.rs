
use vstd::prelude::*;
use std::io::{Error as WriteError, Write};
verus! {
pub const CR: u8 = b'\r';
pub const LF: u8 = b'\n';
pub const SP: u8 = b' ';
pub const COLON: u8 = b':';
#[verifier::external_type_specification]
#[verifier::external_body]
pub struct ExIoError(std::io::Error);

pub uninterp spec fn written<T: ?Sized>(s: &T) -> Seq<u8>;
pub uninterp spec fn spec_allow(a: Seq<Method>) -> Seq<u8>;
pub uninterp spec fn spec_string_bytes(s: &String) -> Seq<u8>;
pub assume_specification [std::string::String::as_bytes] (s: &std::string::String) -> (r: &[u8]) ensures r@ == spec_string_bytes(s);
pub uninterp spec fn spec_version_raw(v: Version) -> Seq<u8>;
pub uninterp spec fn spec_status_raw(v: StatusCode) -> Seq<u8>;


#[verifier::external_trait_specification]
pub trait ExWrite {
    type ExternalTraitSpecificationFor: std::io::Write;
    fn write(&mut self, buf: &[u8]) -> (r: std::io::Result<usize>);
    fn write_all(&mut self, buf: &[u8]) -> (r: std::io::Result<()>)
        ensures r is Ok ==> written(final(self)) == written(old(self)) + buf@;
}
#[derive(Clone, Copy, PartialEq, Eq)]
pub enum Method { Get, Put, Patch }
impl Method { 
    #[verifier::external_body]
    pub fn raw(self) -> &'static [u8] { unimplemented!() } }
#[derive(Clone, Copy, PartialEq, Eq)]
pub enum Version { Http10, Http11 }
impl Version { 
    #[verifier::external_body]
    pub fn raw(self) -> (r: &'static [u8]) ensures r@ == spec_version_raw(self) { unimplemented!() } }
#[derive(Clone, Copy, PartialEq, Eq)]
pub enum MediaType { PlainText, ApplicationJson }
impl MediaType {
    #[verifier::external_body]
    pub fn as_str(self) -> &'static str { unimplemented!() }
}
impl Default for MediaType { fn default() -> Self { Self::ApplicationJson } }
pub enum Header { ContentLength, ContentType, Server, AcceptEncoding }
impl Header { 
    #[verifier::external_body]
    pub fn raw(&self) -> &'static [u8] { unimplemented!() } }
pub struct Body { pub body: Vec<u8> }
impl Body {
    pub fn raw(&self) -> &[u8] { self.body.as_slice() }
    pub fn len(&self) -> usize { self.body.len() }
}
#[derive(Clone, Copy, PartialEq, Eq)]
pub enum StatusCode { Continue, OK, NoContent, BadRequest, Unauthorized, NotFound, MethodNotAllowed, PayloadTooLarge, InternalServerError, NotImplemented, ServiceUnavailable }
impl StatusCode {
    pub fn raw(self) -> &'static [u8; 3] {
        match self {
            Self::Continue => b"100",
            Self::OK => b"200",
            Self::NoContent => b"204",
            Self::BadRequest => b"400",
            Self::Unauthorized => b"401",
            Self::NotFound => b"404",
            Self::MethodNotAllowed => b"405",
            Self::PayloadTooLarge => b"413",
            Self::InternalServerError => b"500",
            Self::NotImplemented => b"501",
            Self::ServiceUnavailable => b"503",
        }
    }
}
struct StatusLine { http_version: Version, status_code: StatusCode }
impl StatusLine {
    fn new(http_version: Version, status_code: StatusCode) -> Self {
        Self {
            http_version,
            status_code,
        }
    }
    fn write_all<T: Write>(&self, mut buf: T) -> (r: Result<(), WriteError>)
    {
        buf.write_all(self.http_version.raw())?;
        buf.write_all(&[SP])?;
        buf.write_all(self.status_code.raw())?;
        buf.write_all(&[SP, CR, LF])?;

        Ok(())
    }
}
pub struct ResponseHeaders {
    content_length: Option<i32>,
    content_type: MediaType,
    deprecation: bool,
    server: String,
    allow: Vec<Method>,
    accept_encoding: bool,
}
impl Default for ResponseHeaders {
    fn default() -> Self {
        Self {
            content_length: Default::default(),
            content_type: Default::default(),
            deprecation: false,
            server: String::from("Firecracker API"),
            allow: Vec::new(),
            accept_encoding: false,
        }
    }
}
impl ResponseHeaders {
    #[verifier::external_body]
    fn write_allow_header<T: Write>(&self, buf: &mut T) -> (r: Result<(), WriteError>)
        ensures r is Ok ==> written(final(buf)) == written(old(buf)) + spec_allow(self.allow@)
    {
        if self.allow.is_empty() {
            return Ok(());
        }

        buf.write_all(b"Allow: ")?;

        let delimitator = b", ";
        for (idx, method) in self.allow.iter().enumerate() {
            buf.write_all(method.raw())?;
            // We check above that `self.allow` is not empty.
            if idx < self.allow.len() - 1 {
                buf.write_all(delimitator)?;
            }
        }

        buf.write_all(&[CR, LF])
    }
    fn write_deprecation_header<T: Write>(&self, buf: &mut T) -> Result<(), WriteError> {
        if !self.deprecation {
            return Ok(());
        }

        buf.write_all(b"Deprecation: true")?;
        buf.write_all(&[CR, LF])
    }
    pub fn write_all<T: Write>(&self, buf: &mut T) -> Result<(), WriteError> {
        buf.write_all(Header::Server.raw())?;
        buf.write_all(&[COLON, SP])?;
        buf.write_all(self.server.as_bytes())?;
        buf.write_all(&[CR, LF])?;

        buf.write_all(b"Connection: keep-alive")?;
        buf.write_all(&[CR, LF])?;

        self.write_allow_header(buf)?;
        self.write_deprecation_header(buf)?;

        if let Some(content_length) = self.content_length {
            buf.write_all(Header::ContentType.raw())?;
            buf.write_all(&[COLON, SP])?;
            buf.write_all(self.content_type.as_str().as_bytes())?;
            buf.write_all(&[CR, LF])?;

            buf.write_all(Header::ContentLength.raw())?;
            buf.write_all(&[COLON, SP])?;
            buf.write_all(content_length.to_string().as_bytes())?;
            buf.write_all(&[CR, LF])?;

            if self.accept_encoding {
                buf.write_all(Header::AcceptEncoding.raw())?;
                buf.write_all(&[COLON, SP])?;
                buf.write_all(b"identity")?;
                buf.write_all(&[CR, LF])?;
            }
        }

        buf.write_all(&[CR, LF])
    }
    pub fn set_content_length(&mut self, content_length: Option<i32>) {
        self.content_length = content_length;
    }
    pub fn set_server(&mut self, server: &str) {
        self.server = String::from(server);
    }
    pub fn set_content_type(&mut self, content_type: MediaType) {
        self.content_type = content_type;
    }
    pub fn set_deprecation(&mut self) {
        self.deprecation = true;
    }
    pub fn set_encoding(&mut self) {
        self.accept_encoding = true;
    }
}
pub struct Response {
    status_line: StatusLine,
    headers: ResponseHeaders,
    body: Option<Body>,
}
impl Response {
    pub fn new(http_version: Version, status_code: StatusCode) -> Self {
        Self {
            status_line: StatusLine::new(http_version, status_code),
            headers: ResponseHeaders {
                content_length: match status_code {
                    StatusCode::Continue | StatusCode::NoContent => None,
                    _ => Some(0),
                },
                ..Default::default()
            },
            body: None,
        }
    }
    pub fn set_body(&mut self, body: Body) {
        self.headers.set_content_length(Some(body.len() as i32));
        self.body = Some(body);
    }
    fn write_body<T: Write>(&self, mut buf: T) -> Result<(), WriteError> {
        if let Some(ref body) = self.body {
            buf.write_all(body.raw())?;
        }
        Ok(())
    }
    pub fn write_all<T: Write>(&self, mut buf: &mut T) -> (r: Result<(), WriteError>)
        ensures r is Ok ==> written(final(buf)).len() >= written(old(buf)).len()
    {
        self.status_line.write_all(&mut buf)?;
        self.headers.write_all(&mut buf)?;
        self.write_body(&mut buf)?;

        Ok(())
    }
}
}
fn main() {}
