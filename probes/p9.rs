use vstd::prelude::*;
use std::collections::VecDeque;
use std::fs::File;
use std::io::{Read, Write};
verus! {

pub const BUFFER_SIZE: usize = 1024;
pub const CR: u8 = b'\r';
pub const LF: u8 = b'\n';
pub const CRLF_LEN: usize = 2;

pub enum HttpHeaderError { UnsupportedValue(String, String), SizeLimitExceeded(String), Other }
pub enum RequestError { HeaderError(HttpHeaderError), SizeLimitExceeded(usize, usize), Overflow, Underflow, InvalidRequest, BodyWithoutPendingRequest, HeadersWithoutPendingRequest }
pub enum ConnectionError { ConnectionClosed, InvalidWrite, ParseError(RequestError), StreamWriteError(std::io::Error) }

#[verifier::external_type_specification]
#[verifier::external_body]
pub struct ExFile(File);

pub struct Body { pub body: Vec<u8> }
impl Body {
    pub fn new(body: Vec<u8>) -> (r: Self) ensures r.body@ == body@ { Self { body } }
}

pub struct Headers { pub content_length: u32, pub expect: bool }
impl Headers {
    pub fn expect(&self) -> (r: bool) ensures r == self.expect { self.expect }

    pub fn content_length(&self) -> (r: u32) ensures r == self.content_length { self.content_length }
}
pub struct RequestLine { pub m: u8 }
pub struct Request {
    pub request_line: RequestLine,
    pub headers: Headers,
    pub body: Option<Body>,
    pub files: Vec<File>,
}

pub enum ConnectionState { WaitingForRequestLine, WaitingForHeaders, WaitingForBody, RequestReady }

pub struct HttpConnection<T> {
    pub pending_request: Option<Request>,
    pub stream: T,
    pub state: ConnectionState,
    pub buffer: [u8; BUFFER_SIZE],
    pub read_cursor: usize,
    pub body_vec: Vec<u8>,
    pub body_bytes_to_be_read: u32,
    pub parsed_requests: VecDeque<Request>,
    pub response_queue: VecDeque<Response>,
    pub response_buffer: Option<Vec<u8>>,
    pub files: Vec<File>,
    pub payload_max_size: usize,
}

pub uninterp spec fn spec_find(bytes: Seq<u8>, seq: Seq<u8>) -> Option<int>;

#[verifier::external_body]
pub fn find(bytes: &[u8], sequence: &[u8]) -> (r: Option<usize>)
    ensures
        match r { Some(i) => 0 <= i && i + sequence@.len() <= bytes@.len() && bytes@.subrange(i as int, i + sequence@.len()) == sequence@, None => true }
{
    bytes
        .windows(sequence.len())
        .position(|window| window == sequence)
}

#[verifier::external_body]
pub fn vdrain_to_collect<T>(v: &mut Vec<T>, r: std::ops::RangeTo<usize>) -> (out: Vec<T>)
    requires r.end <= old(v)@.len(),
    ensures out@ == old(v)@.subrange(0, r.end as int), final(v)@ == old(v)@.subrange(r.end as int, old(v)@.len() as int),
{ v.drain(r).collect() }

#[verifier::external_body]
pub fn vdrain_all_collect<T>(v: &mut Vec<T>) -> (out: Vec<T>)
    ensures out@ == old(v)@, final(v)@ == Seq::<T>::empty(),
{ v.drain(..).collect() }

impl<T: Read + Write> HttpConnection<T> {
    fn parse_body(
        &mut self,
        line_start_index: &mut usize,
        end_cursor: usize,
    ) -> (r: Result<bool, ConnectionError>)
        requires
            old(self).body_vec@.len() + old(self).body_bytes_to_be_read <= u32::MAX,
            old(self).pending_request is Some ==> old(self).pending_request->0.headers.content_length == old(self).body_vec@.len() + old(self).body_bytes_to_be_read,
    {
        // If what we have just read is not enough to complete the request and
        // there are more bytes pertaining to the body of the request.
        if end_cursor > self.buffer.len() {
            return Err(ConnectionError::ParseError(RequestError::Overflow));
        }
        let start_to_end = end_cursor
            .checked_sub(*line_start_index)
            .ok_or(ConnectionError::ParseError(RequestError::Underflow))?
            as u32;
        if self.body_bytes_to_be_read > start_to_end {
            // Append everything that we read to our current incomplete body and update
            // `body_bytes_to_be_read`.
            // The slice access is safe, otherwise `checked_sub` would have failed.
            self.body_vec
                .extend_from_slice(&self.buffer[*line_start_index..end_cursor]);
            // Safe to subtract directly as the `if` condition prevents underflow.
            self.body_bytes_to_be_read -= start_to_end;

            // Clear the buffer and reset the starting index.
            for i in 0..BUFFER_SIZE {
                self.buffer[i] = 0;
            }
            self.read_cursor = 0;

            return Ok(false);
        }

        // Append only the remaining necessary bytes to the body of the request.
        let line_end = line_start_index
            .checked_add(self.body_bytes_to_be_read as usize)
            .ok_or(ConnectionError::ParseError(RequestError::Overflow))?;
        // The slice access is safe as `line_end` is a sum of `line_start_index` + something else.
        self.body_vec
            .extend_from_slice(&self.buffer[*line_start_index..line_end]);
        *line_start_index = line_end;
        self.body_bytes_to_be_read = 0;

        let request = self
            .pending_request
            .as_mut()
            .ok_or(ConnectionError::ParseError(
                RequestError::BodyWithoutPendingRequest,
            ))?;
        // If there are no more bytes to be read for this request.
        // Assign the body of the request.
        let placeholder: Vec<_> = vdrain_to_collect(&mut self
            .body_vec, ..request.headers.content_length() as usize);
        request.body = Some(Body::new(placeholder));

        // If we read more bytes than we should have into the body of the request.
        if !self.body_vec.is_empty() {
            return Err(ConnectionError::ParseError(RequestError::InvalidRequest));
        }

        self.state = ConnectionState::RequestReady;
        Ok(true)
    }
}


#[derive(Clone, Copy)]
pub enum Version { Http10, Http11 }
pub enum StatusCode { Continue, OK }
impl Request { pub fn http_version(&self) -> Version { Version::Http11 } }
pub struct Response { pub v: u8 }
impl Response {
    #[verifier::external_body]
    pub fn new(v: Version, s: StatusCode) -> Self { unimplemented!() }

    #[verifier::external_body]
    pub fn write_all(&self, buf: &mut Vec<u8>) -> (r: Result<(), std::io::Error>) { Ok(()) }
}

#[verifier::external_type_specification]
#[verifier::external_body]
pub struct ExIoError(std::io::Error);

impl RequestLine {
    #[verifier::external_body]
    pub fn try_from(request_line: &[u8]) -> (r: Result<Self, RequestError>) { unimplemented!() }
}
impl Headers {
    #[verifier::external_body]
    pub fn default() -> (r: Self) ensures r.content_length == 0, !r.expect { unimplemented!() }
    #[verifier::external_body]
    pub fn parse_header_line(&mut self, header_line: &[u8]) -> (r: Result<(), RequestError>) { unimplemented!() }
}

impl<T: Read + Write> HttpConnection<T> {
    #[verifier::exec_allows_no_decreases_clause]
    pub fn try_read(&mut self) -> (r: Result<(), ConnectionError>) {
        let end_cursor = self.read_bytes()?;

        let mut line_start_index = 0;
        loop {
            match self.state {
                ConnectionState::WaitingForRequestLine => {
                    if !self.parse_request_line(&mut line_start_index, end_cursor)? {
                        return Ok(());
                    }
                }
                ConnectionState::WaitingForHeaders => {
                    if !self.parse_headers(&mut line_start_index, end_cursor)? {
                        return Ok(());
                    }
                }
                ConnectionState::WaitingForBody => {
                    if !self.parse_body(&mut line_start_index, end_cursor)? {
                        return Ok(());
                    }
                }
                ConnectionState::RequestReady => {
                    self.state = ConnectionState::WaitingForRequestLine;
                    self.body_bytes_to_be_read = 0;
                    let mut pending_request = self.pending_request.take().unwrap();
                    pending_request.files = vdrain_all_collect(&mut self.files);
                    self.parsed_requests.push_back(pending_request);
                }
            };
        }
    }

    fn read_bytes(&mut self) -> Result<usize, ConnectionError> {
        if self.read_cursor >= BUFFER_SIZE {
            return Err(ConnectionError::ParseError(RequestError::Overflow));
        }
        // Append new bytes to what we already have in the buffer.
        // The slice access is safe, the index is checked above.
        let (bytes_read, new_files) = self.recv_with_fds()?;

        // Update the internal list of files that must be associated with the
        // request.
        self.files.extend(new_files);

        // If the read returned 0 then the client has closed the connection.
        if bytes_read == 0 {
            return Err(ConnectionError::ConnectionClosed);
        }
        bytes_read
            .checked_add(self.read_cursor)
            .ok_or(ConnectionError::ParseError(RequestError::Overflow))
    }
    #[verifier::external_body]
    fn recv_with_fds(&mut self) -> (r: Result<(usize, Vec<File>), ConnectionError>) { unimplemented!() }
    pub fn try_write(&mut self) -> Result<(), ConnectionError> {
        if self.response_buffer.is_none() {
            if let Some(response) = self.response_queue.pop_front() {
                let mut response_buffer_vec: Vec<u8> = Vec::new();
                response
                    .write_all(&mut response_buffer_vec)
                    .map_err(|e| ConnectionError::StreamWriteError(e))?;
                self.response_buffer = Some(response_buffer_vec);
            } else {
                return Err(ConnectionError::InvalidWrite);
            }
        }

        let mut response_fully_written = false;
        let mut connection_closed = false;

        if let Some(response_buffer_vec) = self.response_buffer.as_mut() {
            let bytes_to_be_written = response_buffer_vec.len();
            match self.stream.write(response_buffer_vec.as_slice()) {
                Ok(0) => connection_closed = true,
                Ok(bytes_written) => {
                    if bytes_written != bytes_to_be_written {
                        response_buffer_vec.drain(..bytes_written);
                    } else {
                        response_fully_written = true;
                    }
                }
                Err(e) if e.kind() == std::io::ErrorKind::Interrupted => {}
                Err(_) => connection_closed = true,
            }
        }

        if connection_closed {
            self.clear_write_buffer();
            return Err(ConnectionError::ConnectionClosed);
        } else if response_fully_written {
            self.response_buffer.take();
        }

        Ok(())
    }    pub fn clear_write_buffer(&mut self) {
        self.response_queue.clear();
        self.response_buffer.take();
    }    pub fn enqueue_response(&mut self, response: Response) {
        self.response_queue.push_back(response);
    }    pub fn pop_parsed_request(&mut self) -> Option<Request> {
        self.parsed_requests.pop_front()
    }    pub fn pending_write(&self) -> bool {
        self.response_buffer.is_some() || !self.response_queue.is_empty()
    }

    fn parse_request_line(
        &mut self,
        start: &mut usize,
        end: usize,
    ) -> Result<bool, ConnectionError> {
        if end < *start {
            return Err(ConnectionError::ParseError(RequestError::Underflow));
        }
        if end > self.buffer.len() {
            return Err(ConnectionError::ParseError(RequestError::Overflow));
        }
        match find(&self.buffer[*start..end], &[CR, LF]) {
            Some(line_end_index) => {
                let line = &self.buffer[*start..(*start + line_end_index)];

                *start = *start + line_end_index + CRLF_LEN;

                self.pending_request = Some(Request {
                    request_line: RequestLine::try_from(line)
                        .map_err(|e| ConnectionError::ParseError(e))?,
                    headers: Headers::default(),
                    body: None,
                    files: Vec::new(),
                });
                self.state = ConnectionState::WaitingForHeaders;
                Ok(true)
            }
            None => {
                if end == BUFFER_SIZE && *start == 0 {
                    return Err(ConnectionError::ParseError(RequestError::InvalidRequest));
                } else {
                    self.shift_buffer_left(*start, end)
                        .map_err(|e| ConnectionError::ParseError(e))?;
                }
                Ok(false)
            }
        }
    }
    #[verifier::external_body]
    fn shift_buffer_left(&mut self, line_start_index: usize, end_cursor: usize) -> (r: Result<(), RequestError>) { unimplemented!() }
    fn parse_headers(
        &mut self,
        line_start_index: &mut usize,
        end_cursor: usize,
    ) -> Result<bool, ConnectionError> {
        if end_cursor > self.buffer.len() {
            return Err(ConnectionError::ParseError(RequestError::Overflow));
        }
        if end_cursor < *line_start_index {
            return Err(ConnectionError::ParseError(RequestError::Underflow));
        }
        // Safe to access the slice as the bounds are checked above.
        match find(&self.buffer[*line_start_index..end_cursor], &[CR, LF]) {
            // `line_start_index` points to the end of the most recently found CR LF
            // sequence. That means that if we found the next CR LF sequence at this index,
            // they are, in fact, a CR LF CR LF sequence, which marks the end of the header
            // fields, per HTTP specification.

            // We have found the end of the header.
            Some(0) => {
                // The current state is `WaitingForHeaders`, ensuring a valid request formed from a
                // request line.
                let request = self
                    .pending_request
                    .as_mut()
                    .ok_or(ConnectionError::ParseError(
                        RequestError::HeadersWithoutPendingRequest,
                    ))?;
                if request.headers.content_length() == 0 {
                    self.state = ConnectionState::RequestReady;
                } else {
                    if request.headers.content_length() as usize > self.payload_max_size {
                        return Err(ConnectionError::ParseError(
                            RequestError::SizeLimitExceeded(
                                self.payload_max_size,
                                request.headers.content_length() as usize,
                            ),
                        ));
                    }
                    if request.headers.expect() {
                        // Send expect.
                        let expect_response =
                            Response::new(request.http_version(), StatusCode::Continue);
                        self.response_queue.push_back(expect_response);
                    }

                    self.body_bytes_to_be_read = request.headers.content_length();
                    request.body = Some(Body::new(vec![]));
                    self.state = ConnectionState::WaitingForBody;
                }

                // Update the index for the next header.
                *line_start_index = line_start_index
                    .checked_add(CRLF_LEN)
                    .ok_or(ConnectionError::ParseError(RequestError::Overflow))?;
                Ok(true)
            }
            // We have found the end of a header line.
            Some(relative_line_end_index) => {
                let request = self
                    .pending_request
                    .as_mut()
                    .ok_or(ConnectionError::ParseError(
                        RequestError::HeadersWithoutPendingRequest,
                    ))?;
                // The `line_end_index` relative to the whole buffer.
                let line_end_index = relative_line_end_index
                    .checked_add(*line_start_index)
                    .ok_or(ConnectionError::ParseError(RequestError::Overflow))?;

                // Get the line slice and parse it.
                // The slice access is safe because `line_end_index` is a sum of `line_end_index`
                // and something else, and `line_end_index` itself is guaranteed to be within
                // `self.buffer`'s bounds by the `find()`.
                let line = &self.buffer[*line_start_index..line_end_index];
                match request.headers.parse_header_line(line) {
                    // If a header is unsupported we ignore it.
                    Ok(_)
                    | Err(RequestError::HeaderError(HttpHeaderError::UnsupportedValue(_, _))) => {}
                    // If parsing the header invalidates the request, we propagate
                    // the error.
                    Err(e) => return Err(ConnectionError::ParseError(e)),
                };

                // Update the `line_start_index` to where we finished parsing.
                *line_start_index = line_end_index
                    .checked_add(CRLF_LEN)
                    .ok_or(ConnectionError::ParseError(RequestError::Overflow))?;
                Ok(true)
            }
            // If we have an incomplete header line.
            None => {
                // If we have parsed BUFFER_SIZE bytes and still haven't found the header
                // line end sequence.
                if *line_start_index == 0 && end_cursor == BUFFER_SIZE {
                    // Header line is longer than BUFFER_SIZE bytes, so it is invalid.
                    let utf8_string = String::from_utf8_lossy(&self.buffer);
                    return Err(ConnectionError::ParseError(RequestError::HeaderError(
                        HttpHeaderError::SizeLimitExceeded(utf8_string.to_string()),
                    )));
                }
                // Move the incomplete header line from the end of the buffer to
                // the beginning, so that we can append the rest of the line and
                // parse it in the next `try_read` call.
                self.shift_buffer_left(*line_start_index, end_cursor)
                    .map_err(|e| ConnectionError::ParseError(e))?;
                Ok(false)
            }
        }
    }
}

} // verus!
fn main() {}
