use vstd::prelude::*;
verus! {
#[derive(Clone, Copy, PartialEq, Eq)]
pub enum Method { Get, Put, Patch }
pub enum RequestError { InvalidHttpMethod(&'static str) }
#[derive(Clone, Copy, PartialEq, Eq)]
pub enum StatusCode { Continue, OK, NoContent }
impl StatusCode {
    pub fn raw(self) -> (r: &'static [u8; 3])
        ensures r@ == (match self { StatusCode::Continue => seq![49u8, 48u8, 48u8], StatusCode::OK => seq![50u8,48u8,48u8], StatusCode::NoContent => seq![50u8,48u8,52u8] })
    {
        match self {
            Self::Continue => b"100",
            Self::OK => b"200",
            Self::NoContent => b"204",
        }
    }
}
impl Method {
    pub fn raw(self) -> (r: &'static [u8])
        ensures r@ == (match self { Method::Get => seq![71u8, 69u8, 84u8], Method::Put => seq![80u8,85u8,84u8], Method::Patch => seq![80u8,65u8,84u8,67u8,72u8] })
    {
        match self {
            Self::Get => b"GET",
            Self::Put => b"PUT",
            Self::Patch => b"PATCH",
        }
    }
    pub fn try_from(bytes: &[u8]) -> (r: Result<Self, RequestError>)
        ensures r matches Ok(m) ==> bytes@ == (match m { Method::Get => seq![71u8, 69u8, 84u8], Method::Put => seq![80u8,85u8,84u8], Method::Patch => seq![80u8,65u8,84u8,67u8,72u8] })
    {
        match bytes {
            b"GET" => Ok(Self::Get),
            b"PUT" => Ok(Self::Put),
            b"PATCH" => Ok(Self::Patch),
            _ => Err(RequestError::InvalidHttpMethod("Unsupported HTTP method.")),
        }
    }
}
}
fn main() {}
