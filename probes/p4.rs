use vstd::prelude::*;
use std::collections::VecDeque;
use std::fs::File;
verus! {

pub const BUFFER_SIZE: usize = 1024;
pub const CR: u8 = b'\r';
pub const LF: u8 = b'\n';
pub const CRLF_LEN: usize = 2;

pub enum RequestError { Overflow, Underflow, InvalidRequest, BodyWithoutPendingRequest, HeadersWithoutPendingRequest }
pub enum ConnectionError { ConnectionClosed, InvalidWrite, ParseError(RequestError) }

#[verifier::external_type_specification]
#[verifier::external_body]
pub struct ExFile(File);

pub struct Body { pub body: Vec<u8> }
impl Body {
    pub fn new(body: Vec<u8>) -> (r: Self) ensures r.body@ == body@ { Self { body } }
}

pub struct Headers { pub content_length: u32, pub expect: bool }
impl Headers {
    pub fn content_length(&self) -> (r: u32) ensures r == self.content_length { self.content_length }
}
pub struct RequestLine { pub m: u8 }
pub struct Request {
    pub request_line: RequestLine,
    pub headers: Headers,
    pub body: Option<Body>,
    pub files: Vec<File>,
}

pub enum ConnectionState { WaitingForRequestLine, WaitingForHeaders, WaitingForBody, RequestReady }

pub struct HttpConnection<T> {
    pub pending_request: Option<Request>,
    pub stream: T,
    pub state: ConnectionState,
    pub buffer: [u8; BUFFER_SIZE],
    pub read_cursor: usize,
    pub body_vec: Vec<u8>,
    pub body_bytes_to_be_read: u32,
    pub parsed_requests: VecDeque<Request>,
    pub files: Vec<File>,
    pub payload_max_size: usize,
}

pub uninterp spec fn spec_find(bytes: Seq<u8>, seq: Seq<u8>) -> Option<int>;

#[verifier::external_body]
pub fn find(bytes: &[u8], sequence: &[u8]) -> (r: Option<usize>)
    ensures
        match r { Some(i) => 0 <= i && i + sequence@.len() <= bytes@.len() && bytes@.subrange(i as int, i + sequence@.len()) == sequence@, None => true }
{
    bytes
        .windows(sequence.len())
        .position(|window| window == sequence)
}

#[verifier::external_body]
pub fn vdrain_to_collect<T>(v: &mut Vec<T>, r: std::ops::RangeTo<usize>) -> (out: Vec<T>)
    requires r.end <= old(v)@.len(),
    ensures out@ == old(v)@.subrange(0, r.end as int), final(v)@ == old(v)@.subrange(r.end as int, old(v)@.len() as int),
{ v.drain(r).collect() }

impl<T> HttpConnection<T> {
    fn parse_body(
        &mut self,
        line_start_index: &mut usize,
        end_cursor: usize,
    ) -> (r: Result<bool, ConnectionError>)
        requires
            old(self).body_vec@.len() + old(self).body_bytes_to_be_read <= u32::MAX,
            old(self).pending_request is Some ==> old(self).pending_request->0.headers.content_length == old(self).body_vec@.len() + old(self).body_bytes_to_be_read,
    {
        // If what we have just read is not enough to complete the request and
        // there are more bytes pertaining to the body of the request.
        if end_cursor > self.buffer.len() {
            return Err(ConnectionError::ParseError(RequestError::Overflow));
        }
        let start_to_end = end_cursor
            .checked_sub(*line_start_index)
            .ok_or(ConnectionError::ParseError(RequestError::Underflow))?
            as u32;
        if self.body_bytes_to_be_read > start_to_end {
            // Append everything that we read to our current incomplete body and update
            // `body_bytes_to_be_read`.
            // The slice access is safe, otherwise `checked_sub` would have failed.
            self.body_vec
                .extend_from_slice(&self.buffer[*line_start_index..end_cursor]);
            // Safe to subtract directly as the `if` condition prevents underflow.
            self.body_bytes_to_be_read -= start_to_end;

            // Clear the buffer and reset the starting index.
            for i in 0..BUFFER_SIZE {
                self.buffer[i] = 0;
            }
            self.read_cursor = 0;

            return Ok(false);
        }

        // Append only the remaining necessary bytes to the body of the request.
        let line_end = line_start_index
            .checked_add(self.body_bytes_to_be_read as usize)
            .ok_or(ConnectionError::ParseError(RequestError::Overflow))?;
        // The slice access is safe as `line_end` is a sum of `line_start_index` + something else.
        self.body_vec
            .extend_from_slice(&self.buffer[*line_start_index..line_end]);
        *line_start_index = line_end;
        self.body_bytes_to_be_read = 0;

        let request = self
            .pending_request
            .as_mut()
            .ok_or(ConnectionError::ParseError(
                RequestError::BodyWithoutPendingRequest,
            ))?;
        // If there are no more bytes to be read for this request.
        // Assign the body of the request.
        let placeholder: Vec<_> = vdrain_to_collect(&mut self
            .body_vec, ..request.headers.content_length() as usize);
        request.body = Some(Body::new(placeholder));

        // If we read more bytes than we should have into the body of the request.
        if !self.body_vec.is_empty() {
            return Err(ConnectionError::ParseError(RequestError::InvalidRequest));
        }

        self.state = ConnectionState::RequestReady;
        Ok(true)
    }
}

} // verus!
fn main() {}
