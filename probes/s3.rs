
use vstd::prelude::*;
verus! {
pub enum RequestError { Overflow }
#[verifier::external_type_specification]
#[verifier::external_body]
pub struct ExIoError(std::io::Error);
pub struct Errno { pub e: i32 }
impl Errno { 
  #[verifier::external_body]
  pub fn to_string(&self) -> String { unimplemented!() } }
pub enum ConnectionError { ConnectionClosed, InvalidWrite, ParseError(RequestError), StreamReadError(Errno), StreamWriteError(std::io::Error) }
pub enum ServerError { ConnectionError(ConnectionError), Overflow, Underflow }
type Result<T> = std::result::Result<T, ServerError>;
pub struct Request { pub x: u8 }
pub struct Response { pub x: u8 }
pub enum Version { Http10, Http11 }
pub enum StatusCode { BadRequest, InternalServerError }
pub struct Body { pub body: Vec<u8> }
impl Body {
    #[verifier::external_body]
    pub fn new<T: Into<Vec<u8>>>(body: T) -> (r: Self) { Self { body: body.into() } }
}
impl Response {
    #[verifier::external_body]
    pub fn new(v: Version, s: StatusCode) -> Self { unimplemented!() }
    #[verifier::external_body]
    pub fn set_body(&mut self, b: Body) { unimplemented!() }
}
pub struct HttpConnection<T> { pub stream: T, pub pw: bool }
impl<T> HttpConnection<T> {
    #[verifier::external_body]
    pub fn try_read(&mut self) -> (r: std::result::Result<(), ConnectionError>)
        ensures r matches Err(e) ==> !(e is InvalidWrite) && !(e is StreamWriteError)
    { unimplemented!() }
    #[verifier::external_body]
    pub fn try_write(&mut self) -> (r: std::result::Result<(), ConnectionError>) { unimplemented!() }
    #[verifier::external_body]
    pub fn pop_parsed_request(&mut self) -> Option<Request> { unimplemented!() }
    #[verifier::external_body]
    pub fn enqueue_response(&mut self, response: Response) { unimplemented!() }
    #[verifier::external_body]
    pub fn clear_write_buffer(&mut self) { unimplemented!() }
    #[verifier::external_body]
    pub fn pending_write(&self) -> bool { unimplemented!() }
}
#[derive(PartialOrd, PartialEq)]
enum ClientConnectionState {
    AwaitingIncoming,
    AwaitingOutgoing,
    Closed,
}
struct ClientConnection<T> {
    connection: HttpConnection<T>,
    state: ClientConnectionState,
    in_flight_response_count: u32,
}
impl<T> ClientConnection<T> {
    fn new(connection: HttpConnection<T>) -> Self {
        Self {
            connection,
            state: ClientConnectionState::AwaitingIncoming,
            in_flight_response_count: 0,
        }
    }

    #[verifier::exec_allows_no_decreases_clause]
    fn read(&mut self) -> Result<Vec<Request>> {
        // Data came into the connection.
        let mut parsed_requests = vec![];
        match self.connection.try_read() {
            Err(ConnectionError::ConnectionClosed) => {
                // Connection timeout.
                self.state = ClientConnectionState::Closed;
                // We don't want to propagate this to the server and we will
                // return no requests and wait for the connection to become
                // safe to drop.
                return Ok(vec![]);
            }
            Err(ConnectionError::StreamReadError(inner)) => {
                // Reading from the connection failed.
                // We should try to write an error message regardless.
                let mut internal_error_response =
                    Response::new(Version::Http11, StatusCode::InternalServerError);
                internal_error_response.set_body(Body::new(inner.to_string()));
                self.connection.enqueue_response(internal_error_response);
            }
            Err(ConnectionError::ParseError(inner)) => {
                // An error occurred while parsing the read bytes.
                // Check if there are any valid parsed requests in the queue.
                while let Some(_discarded_request) = self.connection.pop_parsed_request() {}

                // Send an error response for the request that gave us the error.
                let mut error_response = Response::new(Version::Http11, StatusCode::BadRequest);
                error_response.set_body(Body::new(format!(
                    "{{ \"error\": \"{}\nAll previous unanswered requests will be dropped.\" }}",
                    inner
                )));
                self.connection.enqueue_response(error_response);
            }
            Err(ConnectionError::InvalidWrite) | Err(ConnectionError::StreamWriteError(_)) => {
                // This is unreachable because `HttpConnection::try_read()` cannot return this error variant.
                unreachable!();
            }
            Ok(()) => {
                while let Some(request) = self.connection.pop_parsed_request() {
                    // Add all valid requests to `parsed_requests`.
                    parsed_requests.push(request);
                }
            }
        }
        self.in_flight_response_count = self
            .in_flight_response_count
            .checked_add(parsed_requests.len() as u32)
            .ok_or(ServerError::Overflow)?;
        // If the state of the connection has changed, we need to update
        // the event set in the `epoll` structure.
        if self.connection.pending_write() {
            self.state = ClientConnectionState::AwaitingOutgoing;
        }

        Ok(parsed_requests)
    }

    fn write(&mut self) -> Result<()> {
        // The stream is available for writing.
        match self.connection.try_write() {
            Err(ConnectionError::ConnectionClosed) | Err(ConnectionError::StreamWriteError(_)) => {
                // Writing to the stream failed so it will be removed.
                self.state = ClientConnectionState::Closed;
            }
            Err(ConnectionError::InvalidWrite) => {
                // A `try_write` call was performed on a connection that has nothing
                // to write.
                return Err(ServerError::ConnectionError(ConnectionError::InvalidWrite));
            }
            _ => {
                // Check if we still have bytes to write for this connection.
                if !self.connection.pending_write() {
                    self.state = ClientConnectionState::AwaitingIncoming;
                }
            }
        }
        Ok(())
    }

    fn enqueue_response(&mut self, response: Response) -> Result<()> {
        if self.state != ClientConnectionState::Closed {
            self.connection.enqueue_response(response);
        }
        self.in_flight_response_count = self
            .in_flight_response_count
            .checked_sub(1)
            .ok_or(ServerError::Underflow)?;
        Ok(())
    }

    /// Discards all pending writes from the inner connection.
    fn clear_write_buffer(&mut self) {
        self.connection.clear_write_buffer();
    }

    // Returns `true` if the connection is closed and safe to drop.
    fn is_done(&self) -> bool {
        self.state == ClientConnectionState::Closed
            && !self.connection.pending_write()
            && self.in_flight_response_count == 0
    }
}
}
impl std::fmt::Display for RequestError { fn fmt(&self, f: &mut std::fmt::Formatter) -> std::fmt::Result { Ok(()) } }
fn main() {}
