#!/usr/bin/env python3
import sys, json, os
os.environ['VERIF_KEEP_GEN'] = '1'
sys.path.insert(0, __import__('os').path.dirname(__import__('os').path.abspath(__file__)))
from vf.unitrun import run_unit
unit=sys.argv[1]
r=run_unit(unit, max_rounds=1 if "--no-drop" in sys.argv else 4)
print('STATUS', r.status, 'wall %.1fs'%r.wall, 'lost', getattr(r,'lost_anchors',None))
for u in r.undecided: print('UNDECIDED:', u)
for d in r.dropped_hints: print('DROPPED HINT:', d['clause'], d['message'])
for f in r.failures:
    print('FAIL', f['kind'], f.get('clause'), f.get('tags'), f['fn'], f.get('site'), '|', f['message'])
    if '-v' in sys.argv: print(f['rendered'])
bad=[x for x in r.funcs if not x[3]]
print('functions', len(r.funcs), 'failed', bad)
slow=sorted(r.funcs,key=lambda x:-x[2])[:6]
print('slowest', [(a.split('::')[-1],c) for a,b,c,d in slow])
