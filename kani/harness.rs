// Kani harnesses for the leaf functions Verus cannot read (byte-string literals, str code).
// This file is appended to a SCRATCH COPY of /repo as `#[cfg(kani)] mod verif_kani;` (a child of the
// crate root, so it sees private items); /repo itself is never touched.
use crate::common::{Method, Version};
use crate::headers::{Header, MediaType};
use crate::request::find;
use crate::response::StatusCode;

// All values of a field-less enum, INCLUDING variants added later: discriminants 0..variant_count.
// (crate feature `variant_count` is switched on for cfg(kani) in the scratch copy only.)
fn any_method() -> Method {
    assert!(std::mem::size_of::<Method>() == 1);
    let k: u8 = kani::any();
    kani::assume((k as usize) < std::mem::variant_count::<Method>());
    // SAFETY: Method is a field-less enum of size 1 with default discriminants 0..variant_count
    unsafe { std::mem::transmute::<u8, Method>(k) }
}

fn any_version() -> Version {
    assert!(std::mem::size_of::<Version>() == 1);
    let k: u8 = kani::any();
    kani::assume((k as usize) < std::mem::variant_count::<Version>());
    // SAFETY: as above
    unsafe { std::mem::transmute::<u8, Version>(k) }
}

fn any_status() -> StatusCode {
    assert!(std::mem::size_of::<StatusCode>() == 1);
    let k: u8 = kani::any();
    kani::assume((k as usize) < std::mem::variant_count::<StatusCode>());
    // SAFETY: as above
    unsafe { std::mem::transmute::<u8, StatusCode>(k) }
}

// documented numbers of the codes known when this harness was written; 0 = a code added later
// (for which only "three digits, distinct from every other code" is checked)
#[allow(unreachable_patterns)]
fn status_number(s: StatusCode) -> u16 {
    match s {
        StatusCode::Continue => 100,
        StatusCode::OK => 200,
        StatusCode::NoContent => 204,
        StatusCode::BadRequest => 400,
        StatusCode::Unauthorized => 401,
        StatusCode::NotFound => 404,
        StatusCode::MethodNotAllowed => 405,
        StatusCode::PayloadTooLarge => 413,
        StatusCode::InternalServerError => 500,
        StatusCode::NotImplemented => 501,
        StatusCode::ServiceUnavailable => 503,
        _ => 0,
    }
}

fn eq_bytes(a: &[u8], b: &[u8]) -> bool {
    if a.len() != b.len() {
        return false;
    }
    let mut i = 0;
    while i < a.len() {
        if a[i] != b[i] {
            return false;
        }
        i += 1;
    }
    true
}

const N: usize = 16;

// C16/C02: Method::try_from accepts exactly GET, PUT, PATCH (case-sensitive) -- all byte strings of length <= 16
#[kani::proof]
#[kani::unwind(18)]
fn method_try_from_exact() {
    let buf: [u8; N] = kani::any();
    let len: usize = kani::any();
    kani::assume(len <= N);
    let s = &buf[..len];
    let r = Method::try_from(s);
    let get = eq_bytes(s, &[71, 69, 84]);
    let put = eq_bytes(s, &[80, 85, 84]);
    let patch = eq_bytes(s, &[80, 65, 84, 67, 72]);
    match r {
        Ok(Method::Get) => { assert!(get) }
        Ok(Method::Put) => { assert!(put) }
        Ok(Method::Patch) => { assert!(patch) }
        Err(crate::RequestError::InvalidHttpMethod(_)) => { assert!(!get && !put && !patch) }
        Err(_) => { assert!(false) }
    }
}

// C16/C02: Version::try_from accepts exactly HTTP/1.0 and HTTP/1.1 -- all byte strings of length <= 16
#[kani::proof]
#[kani::unwind(18)]
fn version_try_from_exact() {
    let buf: [u8; N] = kani::any();
    let len: usize = kani::any();
    kani::assume(len <= N);
    let s = &buf[..len];
    let r = Version::try_from(s);
    let v10 = eq_bytes(s, &[72, 84, 84, 80, 47, 49, 46, 48]);
    let v11 = eq_bytes(s, &[72, 84, 84, 80, 47, 49, 46, 49]);
    match r {
        Ok(Version::Http10) => { assert!(v10) }
        Ok(Version::Http11) => { assert!(v11) }
        Err(crate::RequestError::InvalidHttpVersion(_)) => { assert!(!v10 && !v11) }
        Err(_) => { assert!(false) }
    }
}

// C16: parsing the canonical byte form of any method returns that method; raw()/to_str() are the canonical spellings
// (complete: finite domain).  Also discharges the ASSUMED contracts Method::raw == spec_method_raw of the Verus units.
#[kani::proof]
#[kani::unwind(8)]
fn method_roundtrip() {
    let m = any_method();
    let raw = m.raw();
    #[allow(unreachable_patterns)]
    let expect: &[u8] = match m {
        Method::Get => &[71, 69, 84],
        Method::Put => &[80, 85, 84],
        Method::Patch => &[80, 65, 84, 67, 72],
        _ => raw, // a method added later: only the round trip is checked
    };
    assert!(eq_bytes(raw, expect));
    assert!(eq_bytes(m.to_str().as_bytes(), raw));
    assert!(Method::try_from(raw) == Ok(m));
}

#[kani::proof]
#[kani::unwind(10)]
fn version_roundtrip() {
    let v = any_version();
    let raw = v.raw();
    #[allow(unreachable_patterns)]
    let expect: &[u8] = match v {
        Version::Http10 => &[72, 84, 84, 80, 47, 49, 46, 48],
        Version::Http11 => &[72, 84, 84, 80, 47, 49, 46, 49],
        _ => raw,
    };
    assert!(eq_bytes(raw, expect));
    assert!(Version::try_from(raw) == Ok(v));
}

// C16/C05: every status code serialises to its own three-digit number (complete: 11 codes x 11 codes)
#[kani::proof]
fn status_code_raw() {
    let a = any_status();
    let b = any_status();
    let ra = a.raw();
    assert!(ra[0].is_ascii_digit() && ra[1].is_ascii_digit() && ra[2].is_ascii_digit());
    let n = (ra[0] - b'0') as u16 * 100 + (ra[1] - b'0') as u16 * 10 + (ra[2] - b'0') as u16;
    assert!(status_number(a) == 0 || n == status_number(a));
    let rb = b.raw();
    if a != b {
        assert!(ra[0] != rb[0] || ra[1] != rb[1] || ra[2] != rb[2]);
    }
}

// C16: as_str is the canonical spelling; header names are the documented ones (complete: finite domains)
#[kani::proof]
#[kani::unwind(20)]
fn mediatype_as_str() {
    let m = if kani::any() { MediaType::PlainText } else { MediaType::ApplicationJson };
    let expect: &[u8] = match m {
        MediaType::PlainText => b"text/plain",
        MediaType::ApplicationJson => b"application/json",
    };
    assert!(eq_bytes(m.as_str().as_bytes(), expect));
}

#[kani::proof]
#[kani::unwind(20)]
fn header_raw_names() {
    assert!(eq_bytes(Header::ContentLength.raw(), b"Content-Length"));
    assert!(eq_bytes(Header::ContentType.raw(), b"Content-Type"));
    assert!(eq_bytes(Header::Server.raw(), b"Server"));
    assert!(eq_bytes(Header::AcceptEncoding.raw(), b"Accept-Encoding"));
    assert!(eq_bytes(Header::Expect.raw(), b"Expect"));
    assert!(eq_bytes(Header::TransferEncoding.raw(), b"Transfer-Encoding"));
    assert!(eq_bytes(Header::Accept.raw(), b"Accept"));
}

// NOTE: MediaType::try_from (String::from_utf8 + Unicode trim) does not finish under CBMC (15 min for the two
// canonical strings); it is not covered.

// the ASSUMED contract of `find` in the Verus units: first occurrence, or None iff there is none
const H: usize = 10;
fn occurs_at(h: &[u8], n: &[u8], i: usize) -> bool {
    if i + n.len() > h.len() {
        return false;
    }
    let mut k = 0;
    while k < n.len() {
        if h[i + k] != n[k] {
            return false;
        }
        k += 1;
    }
    true
}

fn check_find(nl: usize) {
    let hay: [u8; H] = kani::any();
    let hl: usize = kani::any();
    kani::assume(hl <= H);
    let needle: [u8; 4] = kani::any();
    let h = &hay[..hl];
    let n = &needle[..nl];
    match find(h, n) {
        Some(i) => {
            assert!(occurs_at(h, n, i));
            let mut j = 0;
            while j < i {
                assert!(!occurs_at(h, n, j));
                j += 1;
            }
        }
        None => {
            let mut j = 0;
            while j < hl {
                assert!(!occurs_at(h, n, j));
                j += 1;
            }
        }
    }
}

#[kani::proof]
#[kani::unwind(12)]
fn find_first_match_1() {
    check_find(1);
}

#[kani::proof]
#[kani::unwind(12)]
fn find_first_match_2() {
    check_find(2);
}

#[kani::proof]
#[kani::unwind(12)]
fn find_first_match_4() {
    check_find(4);
}

// NOTE: a harness for the byte-level composition of Response::write_all into a Vec<u8> (against an independent
// serializer) was tried and did not finish in 27 min even for bodies <= 3 bytes; the Allow and Deprecation
// lines are checked by kani/harness_response.rs instead.

