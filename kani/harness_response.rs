// Kani harnesses that need response.rs' private items: appended as a child module of `response`.
use super::ResponseHeaders;
use crate::common::Method;

fn any_method() -> Method {
    assert!(std::mem::size_of::<Method>() == 1);
    let k: u8 = kani::any();
    kani::assume((k as usize) < std::mem::variant_count::<Method>());
    // SAFETY: Method is a field-less enum of size 1 with default discriminants 0..variant_count
    unsafe { std::mem::transmute::<u8, Method>(k) }
}

// C05: the Allow line is `Allow: m1, m2, ...CRLF` (absent for an empty list) -- all lists of exactly N methods
// (one harness per length 0..=3: a concrete length keeps CBMC's loops concrete).  BOUNDED (N <= 3).
fn check_allow(n: usize) {
    let ms = [any_method(), any_method(), any_method()];
    let mut h = ResponseHeaders::default();
    let mut i = 0;
    while i < n {
        h.allow.push(ms[i]);
        i += 1;
    }
    let mut out: Vec<u8> = Vec::new();
    assert!(h.write_allow_header(&mut out).is_ok());
    let mut want: Vec<u8> = Vec::new();
    if n > 0 {
        want.extend_from_slice(b"Allow: ");
        let mut i = 0;
        while i < n {
            if i > 0 {
                want.extend_from_slice(b", ");
            }
            want.extend_from_slice(ms[i].raw());
            i += 1;
        }
        want.extend_from_slice(b"\r\n");
    }
    assert!(out.len() == want.len());
    let mut k = 0;
    while k < want.len() {
        assert!(out[k] == want[k]);
        k += 1;
    }
}

#[kani::proof]
#[kani::unwind(34)]
fn allow_header_line_0() {
    check_allow(0);
}

#[kani::proof]
#[kani::unwind(34)]
fn allow_header_line_1() {
    check_allow(1);
}

#[kani::proof]
#[kani::unwind(34)]
fn allow_header_line_2() {
    check_allow(2);
}

#[kani::proof]
#[kani::unwind(34)]
fn allow_header_line_3() {
    check_allow(3);
}

// C05: the Deprecation line
#[kani::proof]
#[kani::unwind(26)]
fn deprecation_header_line() {
    let mut h = ResponseHeaders::default();
    let on: bool = kani::any();
    if on {
        h.set_deprecation();
    }
    let mut out: Vec<u8> = Vec::new();
    assert!(h.write_deprecation_header(&mut out).is_ok());
    let want: &[u8] = if on { b"Deprecation: true\r\n" } else { b"" };
    assert!(out.len() == want.len());
    let mut k = 0;
    while k < want.len() {
        assert!(out[k] == want[k]);
        k += 1;
    }
}

fn any_version() -> crate::common::Version {
    let k: u8 = kani::any();
    kani::assume((k as usize) < std::mem::variant_count::<crate::common::Version>());
    // SAFETY: field-less enum of size 1 with default discriminants
    unsafe { std::mem::transmute::<u8, crate::common::Version>(k) }
}

fn any_status() -> super::StatusCode {
    let k: u8 = kani::any();
    kani::assume((k as usize) < std::mem::variant_count::<super::StatusCode>());
    // SAFETY: as above
    unsafe { std::mem::transmute::<u8, super::StatusCode>(k) }
}

// C05: the status line is `VERSION SP CODE SP CRLF` for every version x status code (complete: finite domain)
#[kani::proof]
#[kani::unwind(20)]
fn status_line_bytes() {
    let v = any_version();
    let s = any_status();
    let line = super::StatusLine::new(v, s);
    let mut out: Vec<u8> = Vec::new();
    assert!(line.write_all(&mut out).is_ok());
    let vr = v.raw();
    let sr = s.raw();
    assert!(out.len() == vr.len() + 1 + 3 + 3);
    let mut k = 0;
    while k < vr.len() {
        assert!(out[k] == vr[k]);
        k += 1;
    }
    let n = vr.len();
    assert!(out[n] == b' ' && out[n + 1] == sr[0] && out[n + 2] == sr[1] && out[n + 3] == sr[2]);
    assert!(out[n + 4] == b' ' && out[n + 5] == b'\r' && out[n + 6] == b'\n');
}

// C05: write_body writes exactly the body bytes, nothing for a response without body -- bodies of <= 4 bytes (BOUNDED)
#[kani::proof]
#[kani::unwind(8)]
fn write_body_bytes() {
    let bytes: [u8; 4] = kani::any();
    let n: usize = kani::any();
    kani::assume(n <= 4);
    let has: bool = kani::any();
    let mut r = super::Response::new(crate::common::Version::Http11, super::StatusCode::OK);
    if has {
        r.set_body(crate::common::Body::new(bytes[..n].to_vec()));
    }
    let mut out: Vec<u8> = Vec::new();
    assert!(r.write_body(&mut out).is_ok());
    if has {
        assert!(out.len() == n);
        let mut k = 0;
        while k < n {
            assert!(out[k] == bytes[k]);
            k += 1;
        }
    } else {
        assert!(out.is_empty());
    }
}
