// Kani harness that needs request.rs' private items: appended as a child module of `request`.
use super::Uri;

fn eq_bytes(a: &[u8], b: &[u8]) -> bool {
    if a.len() != b.len() {
        return false;
    }
    let mut i = 0;
    while i < a.len() {
        if a[i] != b[i] {
            return false;
        }
        i += 1;
    }
    true
}


// over the alphabet {ASCII letters/punctuation, C3, A9} a byte string is valid UTF-8 iff every C3 is followed by A9 and
// every A9 is preceded by C3; checking that by hand avoids running std's UTF-8 validator symbolically (the dominant
// cost), and from_utf8_unchecked is then sound
fn alphabet_utf8(b: &[u8]) -> bool {
    let mut i = 0;
    while i < b.len() {
        if b[i] == 0xC3 {
            if i + 1 >= b.len() || b[i + 1] != 0xA9 {
                return false;
            }
            i += 2;
        } else if b[i] == 0xA9 {
            return false;
        } else {
            i += 1;
        }
    }
    true
}

// C16: absolute path of a URI -- all UTF-8 URIs of length <= 12 bytes over the property's alphabet
const U: usize = 12;
#[kani::proof]
#[kani::unwind(15)]
fn uri_abs_path() {
    let buf: [u8; U] = kani::any();
    let len: usize = kani::any();
    kani::assume(len <= U);
    // the property's alphabet: {h,t,p,:,/,a,.,%,U+00E9}; U+00E9 is the two bytes C3 A9
    let mut i = 0;
    while i < U {
        let c = buf[i];
        kani::assume(c == b'h' || c == b't' || c == b'p' || c == b':' || c == b'/' || c == b'a' || c == b'.' || c == b'%' || c == 0xC3 || c == 0xA9);
        i += 1;
    }
    if !alphabet_utf8(&buf[..len]) {
        return;
    }
    // SAFETY: validated just above
    let s = unsafe { std::str::from_utf8_unchecked(&buf[..len]) };
    let uri = Uri::new(s);
    let p = uri.get_abs_path().as_bytes();
    let b = &buf[..len];
    let scheme: &[u8] = b"http://";
    if len >= 7 && eq_bytes(&b[..7], scheme) {
        // suffix from the first '/' after the authority, or empty
        let mut k = 7;
        let mut found = false;
        while k < len {
            if b[k] == b'/' {
                found = true;
                break;
            }
            k += 1;
        }
        if found {
            assert!(eq_bytes(p, &b[k..]));
        } else {
            assert!(p.is_empty());
        }
    } else if len > 0 && b[0] == b'/' {
        assert!(eq_bytes(p, b));
    } else {
        assert!(p.is_empty());
    }
    // hence always empty or a '/'-prefixed suffix of the URI
    assert!(p.is_empty() || (p[0] == b'/' && p.len() <= len && eq_bytes(p, &b[len - p.len()..])));
}

// C16: absolute-form URIs: "http://" followed by up to 5 bytes over the property's alphabet (authority and path,
// including the two-byte character U+00E9) -- covers URIs of up to 12 bytes that the 9-byte harness cannot reach;
// S = 3 and S = 8
fn check_http<const S: usize>() {
    let suf: [u8; S] = kani::any();
    let slen: usize = kani::any();
    kani::assume(slen <= S);
    let mut i = 0;
    while i < S {
        let c = suf[i];
        kani::assume(c == b'h' || c == b't' || c == b'p' || c == b':' || c == b'/' || c == b'a' || c == b'.' || c == b'%' || c == 0xC3 || c == 0xA9);
        i += 1;
    }
    let mut buf = [0u8; 15];
    assert!(S <= 8);
    buf[0] = b'h'; buf[1] = b't'; buf[2] = b't'; buf[3] = b'p'; buf[4] = b':'; buf[5] = b'/'; buf[6] = b'/';
    let mut i = 0;
    while i < S {
        buf[7 + i] = suf[i];
        i += 1;
    }
    let len = 7 + slen;
    if !alphabet_utf8(&buf[..len]) {
        return;
    }
    // SAFETY: validated just above
    let s = unsafe { std::str::from_utf8_unchecked(&buf[..len]) };
    let uri = Uri::new(s);
    let p = uri.get_abs_path().as_bytes();
    let b = &buf[..len];
    let mut k = 7;
    let mut found = false;
    while k < len {
        if b[k] == b'/' {
            found = true;
            break;
        }
        k += 1;
    }
    if found {
        assert!(eq_bytes(p, &b[k..]));
    } else {
        assert!(p.is_empty());
    }
}

#[kani::proof]
#[kani::unwind(14)]
fn uri_abs_path_http3() {
    check_http::<3>();
}

#[kani::proof]
#[kani::unwind(18)]
fn uri_abs_path_http8() {
    check_http::<8>();
}
