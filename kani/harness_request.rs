// Kani harness that needs request.rs' private items: appended as a child module of `request`.
use super::Uri;

fn eq_bytes(a: &[u8], b: &[u8]) -> bool {
    if a.len() != b.len() {
        return false;
    }
    let mut i = 0;
    while i < a.len() {
        if a[i] != b[i] {
            return false;
        }
        i += 1;
    }
    true
}

// C16: absolute path of a URI -- all UTF-8 URIs of length <= 9 bytes over the property's alphabet
const U: usize = 9;
#[kani::proof]
#[kani::unwind(12)]
fn uri_abs_path() {
    let buf: [u8; U] = kani::any();
    let len: usize = kani::any();
    kani::assume(len <= U);
    // the property's alphabet: {h,t,p,:,/,a,.,%,U+00E9}; U+00E9 is the two bytes C3 A9
    let mut i = 0;
    while i < U {
        let c = buf[i];
        kani::assume(c == b'h' || c == b't' || c == b'p' || c == b':' || c == b'/' || c == b'a' || c == b'.' || c == b'%' || c == 0xC3 || c == 0xA9);
        i += 1;
    }
    let s = match std::str::from_utf8(&buf[..len]) {
        Ok(s) => s,
        Err(_) => return,
    };
    let uri = Uri::new(s);
    let p = uri.get_abs_path().as_bytes();
    let b = &buf[..len];
    let scheme: &[u8] = b"http://";
    if len >= 7 && eq_bytes(&b[..7], scheme) {
        // suffix from the first '/' after the authority, or empty
        let mut k = 7;
        let mut found = false;
        while k < len {
            if b[k] == b'/' {
                found = true;
                break;
            }
            k += 1;
        }
        if found {
            assert!(eq_bytes(p, &b[k..]));
        } else {
            assert!(p.is_empty());
        }
    } else if len > 0 && b[0] == b'/' {
        assert!(eq_bytes(p, b));
    } else {
        assert!(p.is_empty());
    }
    // hence always empty or a '/'-prefixed suffix of the URI
    assert!(p.is_empty() || (p[0] == b'/' && p.len() <= len && eq_bytes(p, &b[len - p.len()..])));
}
