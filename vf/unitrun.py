"""Generate + verify one unit, with hint-dropping refinement."""
import os
import re
import time

from .gen import UnitGen, roundtrip
from .rustsrc import ExtractError
from . import verus

VERIF = os.path.dirname(os.path.dirname(os.path.abspath(__file__)))
REPO = os.environ.get('VERIF_REPO', '/repo')
GEN = os.path.join(VERIF, 'gen')


class UnitResult:
    def __init__(self, unit):
        self.unit = unit
        self.status = 'undecided'   # pass | fail | undecided
        self.failures = []
        self.undecided = []
        self.g = None
        self.runs = []
        self.funcs = []
        self.dropped_hints = []
        self.wall = 0.0
        self.gen_path = None
        self.demoted = {}


def run_unit(unit, repo=REPO, rlimit=None, threads=8, canary=None, suffix='', max_rounds=4, timeout=900, post=None):
    t0 = time.time()
    r = UnitResult(unit)
    disabled = set()
    os.makedirs(GEN, exist_ok=True)
    rl = rlimit or UNIT_RLIMIT.get(unit, 40)
    demoted = {}
    dropped_fns = {}
    aliases = []
    rnd = -1
    while rnd + 1 < max_rounds + len(demoted) + len(dropped_fns) + len(aliases):
        rnd += 1
        ug = UnitGen(repo, os.path.join(VERIF, 'units'), disabled=disabled)
        ug.canary = canary
        ug.force_assumed = set(demoted)
        ug.force_drop = set(dropped_fns)
        ug.extra_aliases = list(aliases)
        try:
            g = ug.generate(unit)
        except ExtractError as e:
            r.undecided.append('extraction: %s' % e)
            r.wall = time.time() - t0
            return r
        if post:
            post(g)
        text = g.text()
        # one file per process: several checks may run side by side (they would otherwise overwrite each other's
        # generated text while Verus is reading it); kept only for the developer loop (VERIF_KEEP_GEN)
        keep = bool(os.environ.get('VERIF_KEEP_GEN'))
        path = os.path.join(GEN, '%s%s%s.rs' % (unit, suffix, '' if keep else '_p%d' % os.getpid()))
        with open(path, 'w') as f:
            f.write(text)
        r.gen_path = path
        r.g = g
        with open(path) as f:
            problems = roundtrip(f.read(), g)
        if problems:
            r.undecided += ['round-trip: ' + p for p in problems]
            r.wall = time.time() - t0
            return r
        vr = verus.run_verus(path, rlimit=rl, threads=threads, timeout=timeout)
        if not keep:
            try:
                os.remove(path)
            except OSError:
                pass
        r.runs.append(dict(cmd=re.sub(r'_p\d+\.rs', '.rs', vr['cmd']), rc=vr['rc'], wall=vr['wall']))
        r.funcs = verus.function_results(vr['result'])
        fails, und = verus.classify(vr['diags'], g)
        if vr['rc'] != 0 and not fails and not und:
            und.append('verus exited %s without diagnostics: %s' % (vr['rc'], vr['stderr'][-800:]))
        if vr['result'] is None and vr['rc'] == 0:
            und.append('verus produced no result json')
        hints = [f for f in fails if f['kind'] == 'hint']
        others = [f for f in fails if f['kind'] != 'hint']
        if any(h['message'].startswith('hint does not compile') for h in hints):
            # rustc stopped before verification: nothing else of this round means anything
            und = [u for u in und if not u.startswith('tool/compile error')]
        # a construct outside the Verus subset inside ONE extracted function: keep that function's
        # signature and contract, leave its body unverified (reported as `demoted`), and verify the rest
        import re as _re
        culprits = set()
        sig_culprits = set()
        for u_ in und:
            m_ = _re.search(r'\[outside-subset-in=([\w.<>:]+)\]$', u_)
            if u_.startswith('tool/compile error') and m_ and m_.group(1) in g.fns and g.fns[m_.group(1)]['mode'] == 'verify':
                culprits.add(m_.group(1))
            elif u_.startswith('tool/compile error') and m_ and m_.group(1) in g.fns:
                sig_culprits.add(m_.group(1))   # the copied signature of an ASSUMED function does not compile here
        compile_errs = [u_ for u_ in und if u_.startswith('tool/compile error')]
        # a copied item names a module-level type alias of the repository that the unit does not have yet: fetch it
        need = set(_re.findall(r'cannot find type `(\w+)` in this scope', ' '.join(compile_errs))) - set(a[0] for a in aliases)
        got_alias = [ug.find_alias(n_) for n_ in sorted(need)]
        got_alias = [a_ for a_ in got_alias if a_]
        if got_alias and len(aliases) + len(got_alias) <= 4 and not hints:
            aliases += got_alias
            continue
        if sig_culprits and len(sig_culprits) + len(dropped_fns) <= 3 and not hints:
            for c_ in sig_culprits:
                dropped_fns[c_] = [u_ for u_ in compile_errs if u_.endswith('[outside-subset-in=%s]' % c_)][0][:300]
            continue
        if culprits and len(culprits) + len(demoted) <= 3 and all(_re.search(r'\[outside-subset-in=', u_) for u_ in compile_errs) and not hints:
            for c_ in culprits:
                demoted[c_] = [u_ for u_ in compile_errs if u_.endswith('[outside-subset-in=%s]' % c_)][0][:400]
            continue
        r.failures = others
        r.undecided = und
        r.demoted = dict(demoted)
        if hints and rnd + 1 < max_rounds:
            # a failed hint is assumed by Verus afterwards, so nothing else in that
            # function can be trusted: drop the failing hints and re-verify.
            new = set(h['clause'] for h in hints) - disabled
            if new:
                disabled |= new
                r.dropped_hints += [dict(clause=h['clause'], tags=h['tags'], message=h['message'], fn=h['fn'],
                                         rendered=h['rendered']) for h in hints if h['clause'] in new]
                continue
        if hints:
            r.undecided.append('hints still failing after %d rounds: %s' % (rnd + 1, sorted(set(h['clause'] for h in hints))))
        break
    if g.lost_anchors:
        r.lost_anchors = list(g.lost_anchors)
    else:
        r.lost_anchors = []
    if r.failures:
        r.status = 'fail'
    elif r.undecided:
        r.status = 'undecided'
    elif r.demoted:
        r.status = 'partial'   # everything that could be checked passed, but some function bodies were left unverified
    else:
        r.status = 'pass'
    r.wall = time.time() - t0
    return r


UNIT_RLIMIT = {}
