"""Template processor: builds one Verus input file per unit from a template
(units/*.vrs) and the *current* text of /repo.

Functions and items named by `//!fn` / `//!item` directives are copied verbatim
from the repository; contracts, loop invariants and proof hints written in the
template are spliced in as whole lines, each carrying a trailing `//@<clause-id>`
marker.  `roundtrip()` re-reads the generated file, deletes every marked line,
undoes the declared rewrites and checks token identity with the repository text.
"""
import hashlib
import json
import os
import re

from .rustsrc import RustFile, FnParts, ExtractError, tokens, mask, match_close

MARK_RE = re.compile(r'\s*//@([\w.\-:^]+)\s*$')

# RW1: enum constructor passed as a function value to map_err.
RW1_TABLE = {
    'ConnectionError::ParseError': ('RequestError', 'ConnectionError'),
    'ConnectionError::StreamReadError': ('vmm_sys_util::errno::Error', 'ConnectionError'),
    'ConnectionError::StreamWriteError': ('std::io::Error', 'ConnectionError'),
    'ServerError::IOError': ('std::io::Error', 'ServerError'),
}



def binder_names(src_masked):
    """Ordered list of the identifiers a function binds: parameters, then `let`, `for`, and the
    single-identifier payloads of Some/Ok/Err patterns.  Purely syntactic."""
    p = src_masked.find('(')
    q = match_close(src_masked, p)
    params = []
    depth = 0
    cur = ''
    for ch in src_masked[p + 1:q] + ',':
        if ch in '([{<':
            depth += 1
        elif ch in ')]}>':
            depth -= 1
        if ch == ',' and depth == 0:
            m = re.match(r'\s*(?:mut\s+)?([A-Za-z_]\w*)\s*:', cur)
            if m and m.group(1) != 'self':
                params.append(m.group(1))
            cur = ''
        else:
            cur += ch
    body = src_masked[q:]
    locs = []
    for m in re.finditer(r'\blet\s+(?:mut\s+)?([a-z_]\w*)\b|\bfor\s+([a-z_]\w*)\s+in\b|\b[A-Z]\w*\(\s*(?:ref\s+|mut\s+)?([a-z_]\w*)\s*\)+\s*(?:=>|=(?!=))', body):
        name = m.group(1) or m.group(2) or m.group(3)
        if name and name != '_':
            locs.append(name)
    return params, locs


class Section:
    def __init__(self, kind, args, opts):
        self.kind = kind
        self.args = args
        self.opts = opts
        self.lines = []
        self.id = opts.get('id')
        _t = opts.get('tags', '')
        self.tags = [t for t in _t.replace(';', ',').split(',') if t]
        # tags after ';' are SECONDARY: the property's proof uses this clause, but a failure of the clause alone does
        # not show that property broken (it is primary for another one) -- such a failure needs a concrete input
        self.secondary = [t for t in _t.split(';', 1)[1].split(',') if t] if ';' in _t else []
        self.role = opts.get('role', 'hint' if kind in ('entry', 'after', 'before') else 'clause')
        self.applied = False
        self.enabled = True


class FnDir:
    def __init__(self, file, path, opts, origin):
        self.file = file
        self.path = path
        self.opts = opts
        self.id = opts.get('id', path.replace('::', '.').replace('<', '').replace('>', '').replace(' ', '_'))
        self.mode = opts.get('mode', 'verify')
        self.tags = [t for t in opts.get('tags', '').split(',') if t]
        self.sections = []
        self.origin = origin


def parse_opts(words):
    opts = {}
    rest = []
    for w in words:
        if re.match(r'^[a-z_]+=', w):
            k, v = w.split('=', 1)
            opts[k] = v
        else:
            rest.append(w)
    return rest, opts


class Generated:
    def __init__(self):
        self.lines = []        # generated text lines
        self.map = []          # per line: dict(kind, fn, clause, tags, role, src)
        self.fns = {}          # id -> info dict
        self.items = []
        self.clauses = {}      # clause id -> dict(fn, kind, tags, role, text)
        self.lost_anchors = [] # clause ids whose anchor did not match
        self.rewrites = []
        self.framework_sha = None

    def emit(self, text, **meta):
        for ln in text.split('\n'):
            self.lines.append(ln)
            self.map.append(dict(meta))

    def text(self):
        return '\n'.join(self.lines) + '\n'


class UnitGen:
    def __init__(self, repo, units_dir, disabled=None):
        self.repo = repo
        self.units_dir = units_dir
        self.files = {}
        self.disabled = set(disabled or [])
        self.canary = None  # fn id -> append assert(false)
        self.force_assumed = set()  # fn ids whose body is outside the verifier's subset on this tree: contract assumed, reported
        self.force_drop = set()     # assumed fn ids whose copied SIGNATURE no longer compiles in the unit (e.g. it names a new private type)
        self.extra_aliases = []     # `type X = ...;` items of the repository that copied text turned out to need (found on demand)

    def names_baseline(self):
        if not hasattr(self, '_names'):
            p = os.path.join(self.units_dir, 'names.json')
            self._names = json.load(open(p)) if os.path.exists(p) else {}
        return self._names

    def rf(self, rel):
        if rel not in self.files:
            p = os.path.join(self.repo, rel)
            if not os.path.exists(p):
                raise ExtractError('source file %s missing' % rel)
            self.files[rel] = RustFile(p)
        return self.files[rel]

    # ------------------------------------------------------------------ parse
    def load(self, name, mode_override=None, seen=None):
        """Return list of ('text', line) | ('fn', FnDir) | ('item', dict) entries."""
        seen = seen or []
        path = os.path.join(self.units_dir, name)
        if path in seen:
            raise ExtractError('include cycle at %s' % name)
        with open(path, encoding='utf-8') as f:
            raw = f.read().split('\n')
        entries = []
        cur_fn = None
        cur_sec = None
        for lineno, ln in enumerate(raw, 1):
            s = ln.strip()
            if s.startswith('//!'):
                words = s[3:].split()
                if not words:
                    continue
                d = words[0]
                origin = '%s:%d' % (name, lineno)
                if d == 'include':
                    rest, opts = parse_opts(words[1:])
                    entries += self.load(rest[0], opts.get('mode', mode_override), seen + [path])
                    cur_sec = None
                elif d == 'item':
                    rest, opts = parse_opts(words[1:])
                    entries.append(('item', dict(file=rest[0], kind=rest[1], path=rest[2], opts=opts, origin=origin)))
                    cur_sec = None
                elif d == 'irewrite':
                    m = re.match(r'//!irewrite\s+(\w+)\s+<<<(.*)>>>\s*==>\s*<<<(.*)>>>\s*$', s)
                    if not m or not entries or entries[-1][0] != 'item':
                        raise ExtractError('bad irewrite directive at %s' % origin)
                    entries[-1][1].setdefault('irewrites', []).append((m.group(1), m.group(2), m.group(3)))
                elif d == 'fn':
                    rest, opts = parse_opts(words[1:])
                    if mode_override and 'mode' not in opts:
                        opts['mode'] = mode_override
                    elif mode_override and opts.get('mode') == 'verify':
                        opts['mode'] = mode_override
                    cur_fn = FnDir(rest[0], rest[1], opts, origin)
                    cur_sec = None
                elif d == 'endfn':
                    entries.append(('fn', cur_fn))
                    cur_fn = None
                    cur_sec = None
                elif d in ('requires', 'ensures', 'decreases', 'entry', 'attr', 'opens'):
                    rest, opts = parse_opts(words[1:])
                    cur_sec = Section(d, rest, opts)
                    cur_fn.sections.append(cur_sec)
                elif d == 'loop':
                    m = re.match(r'//!loop\s+(\d+)\s*(?:/(.*)/)?\s*(.*)$', s)
                    if not m:
                        raise ExtractError('bad loop directive at %s' % origin)
                    rest, opts = parse_opts(m.group(3).split())
                    cur_sec = Section('loop', [int(m.group(1)), m.group(2)], opts)
                    cur_fn.sections.append(cur_sec)
                elif d in ('after', 'before'):
                    m = re.match(r'//!(after|before)\s+(\d+)\s+/(.*)/\s*(.*)$', s)
                    if not m:
                        raise ExtractError('bad anchor directive at %s' % origin)
                    rest, opts = parse_opts(m.group(4).split())
                    cur_sec = Section(d, [int(m.group(2)), m.group(3)], opts)
                    cur_fn.sections.append(cur_sec)
                elif d == 'rewrite':
                    m = re.match(r'//!rewrite\s+(\w+)\s+<<<(.*)>>>\s*==>\s*<<<(.*)>>>\s*$', s)
                    if not m:
                        raise ExtractError('bad rewrite directive at %s' % origin)
                    cur_sec = Section('rewrite', [m.group(1), m.group(2), m.group(3)], {})
                    cur_fn.sections.append(cur_sec)
                    cur_sec = None
                elif d == '#':
                    pass
                else:
                    raise ExtractError('unknown directive %s at %s' % (d, origin))
            else:
                if cur_sec is not None:
                    cur_sec.lines.append(ln)
                elif cur_fn is not None:
                    if s:
                        raise ExtractError('text outside a section inside //!fn at %s:%d' % (name, lineno))
                else:
                    entries.append(('text', ln, name))
        if cur_fn is not None:
            raise ExtractError('unterminated //!fn in %s' % name)
        return entries

    # --------------------------------------------------------------- generate
    def generate(self, unit):
        g = Generated()
        entries = self.load(unit + '.vrs')
        fw = hashlib.sha256()
        for e in entries:
            if e[0] == 'text':
                g.emit(e[1], kind='framework', origin=e[2])
                fw.update((e[1] + '\n').encode())
            elif e[0] == 'item':
                self.gen_item(g, e[1])
            else:
                self.gen_fn(g, e[1])
        g.framework_sha = fw.hexdigest()
        self.follow_field_renames(g)
        if self.extra_aliases:
            # module-level type aliases of the repository that a copied item or function names: copied verbatim
            for i, ln in enumerate(g.lines):
                if ln.strip() == 'verus! {':
                    for k, (name, text, where) in enumerate(self.extra_aliases):
                        g.lines.insert(i + 1 + k, text + ' //@alias.%s' % name)
                        g.map.insert(i + 1 + k, dict(kind='framework', src=where))
                    g.rewrites.append(dict(fn='(unit)', id='ALIAS', frm='', to=', '.join(a[0] for a in self.extra_aliases)))
                    break
        return g

    def find_alias(self, name):
        """text of `type <name> = ...;` at module level of a source file of the repository, or None"""
        import glob as _glob
        for f in sorted(_glob.glob(os.path.join(self.repo, 'src', '**', '*.rs'), recursive=True)):
            try:
                txt = open(f).read()
            except OSError:
                continue
            m = re.search(r'^(?:pub(?:\([^)]*\))?\s+)?type\s+%s\b[^;{]*=[^;]*;' % re.escape(name), txt, re.M)
            if m:
                t = re.sub(r'^pub(?:\([^)]*\))?\s+', '', m.group(0))
                return (name, 'pub ' + ' '.join(t.split()), os.path.relpath(f, self.repo))
        return None

    @staticmethod
    def struct_fields(src_text):
        """[(name, type text)] of a braced struct definition, in order; None if not a plain struct"""
        m = mask(src_text)
        if not re.search(r'\bstruct\b', m.split('{')[0]) or '{' not in m:
            return None
        a = m.index('{')
        b = match_close(m, a)
        body = src_text[a + 1:b]
        mb = m[a + 1:b]
        out, depth, last = [], 0, 0
        parts = []
        for i, ch in enumerate(mb):
            if ch in '([{<':
                depth += 1
            elif ch in ')]}>':
                depth -= 1
            elif ch == ',' and depth == 0:
                parts.append((last, i))
                last = i + 1
        parts.append((last, len(mb)))
        for x, y in parts:
            seg = ' '.join(l for l in (ln.strip() for ln in body[x:y].split('\n')) if l and not l.startswith(('//', '#[')))
            mm = re.match(r'^(?:pub(?:\([^)]*\))?\s+)?([A-Za-z_]\w*)\s*:\s*(.+)$', seg)
            if mm:
                out.append((mm.group(1), ' '.join(mm.group(2).split())))
        return out

    def follow_field_renames(self, g):
        """A struct whose fields were only RENAMED (same number, same types, same order) since the committed baseline:
        the contract text (framework + spliced clauses, never the copied code) follows the new names -- `.old` and `old:`."""
        base = self.names_baseline().get('__fields__', {})
        renames = {}
        for it in g.items:
            cur = self.struct_fields(it['src_text'])
            old = base.get(it['id'])
            it['fields'] = cur
            if not cur or not old or len(cur) != len(old):
                continue
            if [t for _, t in cur] != [t for _, t in old]:
                continue
            for (o, _), (n, _) in zip(old, cur):
                if o != n:
                    renames[o] = n
        if not renames or len(set(renames.values())) != len(renames):
            return
        rx = re.compile(r'(?:(?<=\.)|(?<![\w.]))(%s)\b(?=\s*:(?!:))|(?<=\.)(%s)\b' % ('|'.join(map(re.escape, renames)), '|'.join(map(re.escape, renames))))
        for i, (ln, mp) in enumerate(zip(g.lines, g.map)):
            if mp.get('kind') in ('framework', 'clause'):
                new = rx.sub(lambda m: renames[m.group(1) or m.group(2)], ln)
                if new != ln:
                    g.lines[i] = new
        g.rewrites.append(dict(fn='(contract text)', id='FIELDS', frm=', '.join(sorted(renames)), to=', '.join(renames[k] for k in sorted(renames))))

    def gen_item(self, g, d):
        rf = self.rf(d['file'])
        it = rf.find(d['kind'], d['path'])
        body = rf.text[it.head_start:it.end]
        opts = d['opts']
        iid = 'item.' + d['path']
        g.emit('//@@begin %s' % iid, kind='framework')
        if 'pre' in opts:
            for a in opts['pre'].split(';'):
                g.emit('%s //@%s' % (a.replace('~', ' '), iid), kind='clause', clause=iid, tags=[], role='attr')
        if 'derive' in opts:
            g.emit('#[derive(%s)] //@%s' % (opts['derive'], iid), kind='clause', clause=iid, tags=[], role='attr')
        if 'vis' in opts:
            # visibility widening of fields is NOT done; only whole-item text is copied
            pass
        src_body = body
        irws = []
        if opts.get('pubcrate') == 'pub' and 'pub(crate)' in body:
            body = body.replace('pub(crate)', 'pub', 1)
            irws.append(dict(id='RW8', frm='pub(crate)', to='pub'))
            g.rewrites.append(dict(fn=iid, id='RW8', frm='pub(crate)', to='pub'))
        for rid, pat, rep in d.get('irewrites', []):
            m = re.search(pat, body, re.S)
            if not m:
                g.lost_anchors.append('%s.rewrite.%s' % (iid, rid))
                continue
            new = m.expand(rep)
            irws.append(dict(id=rid, frm=m.group(0), to=new))
            g.rewrites.append(dict(fn=iid, id=rid, frm=m.group(0), to=new))
            body = body[:m.start()] + new + body[m.end():]
        g.emit(body, kind='item', fn=iid, src='%s:%d' % (d['file'], rf.line_of(it.head_start)))
        g.emit('//@@end %s' % iid, kind='framework')
        dropped = [l.strip() for l in rf.text[it.start:it.head_start].split('\n')
                   if l.strip().startswith('#[')]
        g.items.append(dict(id=iid, file=d['file'], line=rf.line_of(it.head_start),
                            sha256=hashlib.sha256(src_body.encode()).hexdigest(),
                            dropped_attributes=dropped, src_text=src_body, rewrites=irws))

    @staticmethod
    def masked_sub(pattern, fn, text):
        """re.sub where the pattern is matched on the text with comments and string contents blanked,
        and the match object handed to `fn` carries the ORIGINAL text of the groups."""
        out = []
        pos = 0
        m_text = mask(text)
        for m in re.finditer(pattern, m_text):
            orig = re.match(pattern, text[m.start():m.end()], re.S)
            class M:  # minimal match facade over the original text
                def __init__(s2, a, b): s2.a, s2.b = a, b
                def group(s2, k=0):
                    if k == 0: return text[s2.a:s2.b]
                    return text[m.start(k):m.end(k)]
            out.append(text[pos:m.start()])
            out.append(fn(M(m.start(), m.end())))
            pos = m.end()
        out.append(text[pos:])
        return ''.join(out)

    def auto_rewrites(self, text):
        rws = []

        def rw1(m):
            ctor = m.group(1)
            e, r = RW1_TABLE[ctor]
            new = '.map_err(|e: %s| -> (r: %s) ensures r == %s(e) { %s(e) })' % (e, r, ctor, ctor)
            rws.append(('RW1', m.group(0), new))
            return new
        pat = r'\.map_err\((%s)\)' % '|'.join(re.escape(k) for k in RW1_TABLE)
        text = re.sub(pat, rw1, text)

        def rw2(m):
            rws.append(('RW2', m.group(0), '|_e|'))
            return '|_e|'
        text = re.sub(r'\|_\|', rw2, text)

        # RW3: <place>.drain(<range>).collect()  /  <place>.drain(<range>);   (Vec::drain is outside Verus)
        # RW7: <place>.extend(<expr>);
        place = r'(?<![\w.])(?P<place>(?:self|[A-Za-z_]\w*)(?:\s*\.\s*[A-Za-z_]\w*)*)'

        def norm_place(p):
            p = re.sub(r'\s+', '', p)
            return p if p.startswith('self.') else p  # locals that are &mut Vec are passed as is

        def rw3_collect(m):
            pl = norm_place(m.group('place'))
            rng = m.group('range').strip()
            amp = '&mut ' if pl.startswith('self.') else ''
            if rng == '..':
                new = 'vdrain_all_collect(%s%s)' % (amp, pl)
            else:
                new = 'vdrain_to_collect(%s%s, %s)' % (amp, pl, rng)
            rws.append(('RW3', m.group(0), new))
            return new
        text = self.masked_sub(place + r'\s*\.\s*drain\((?P<range>[^;{}]*?)\)\s*\.\s*collect\(\)', rw3_collect, text)

        def rw3_drop(m):
            pl = norm_place(m.group('place'))
            rng = m.group('range').strip()
            amp = '&mut ' if pl.startswith('self.') else ''
            new = 'vdrain_to_drop(%s%s, %s);' % (amp, pl, rng)
            rws.append(('RW3', m.group(0), new))
            return new
        text = self.masked_sub(place + r'\s*\.\s*drain\((?P<range>\.\.[^;{}]+?)\);', rw3_drop, text)

        def rw7(m):
            pl = norm_place(m.group('place'))
            amp = '&mut ' if pl.startswith('self.') else ''
            new = 'vextend(%s%s, %s);' % (amp, pl, m.group('arg'))
            rws.append(('RW7', m.group(0), new))
            return new
        text = self.masked_sub(place + r'\s*\.\s*extend\((?P<arg>[A-Za-z_]\w*)\);', rw7, text)
        return text, rws

    @staticmethod
    def split_args(argtext):
        """split at top-level commas (text must already be free of comments)"""
        m = mask(argtext)
        out, depth, last = [], 0, 0
        for i, ch in enumerate(m):
            if ch in '([{':
                depth += 1
            elif ch in ')]}':
                depth -= 1
            elif ch == ',' and depth == 0:
                out.append(argtext[last:i].strip())
                last = i + 1
        tail = argtext[last:].strip()
        if tail:
            out.append(tail)
        return out

    def rw_format(self, text, rws):
        """RW15: format!("l0{}l1{}..ln", a1, .., an) -> vfmt<n>("l0", &(a1), "l1", .., &(an), "ln").
        Only format strings whose holes are all plain `{}` and that contain no other brace are rewritten."""
        m_text = mask(text)
        out, pos = [], 0
        for m in re.finditer(r'\bformat!\(', m_text):
            if m.start() < pos:
                continue
            close = match_close(m_text, m.end() - 1)
            args = self.split_args(text[m.end():close])
            if not args or not re.match(r'^"[^"\\]*"$', args[0]):
                continue
            lit = args[0][1:-1]
            pieces = lit.split('{}')
            if any('{' in p or '}' in p for p in pieces) or len(pieces) - 1 != len(args) - 1 or not 1 <= len(args) - 1 <= 3:
                continue
            parts = ['"%s"' % pieces[0]]
            for a, pc in zip(args[1:], pieces[1:]):
                parts += ['&(%s)' % a, '"%s"' % pc]
            new = 'vfmt%d(%s)' % (len(args) - 1, ', '.join(parts))
            rws.append(('RW15', text[m.start():close + 1], new))
            out.append(text[pos:m.start()])
            out.append(new)
            pos = close + 1
        out.append(text[pos:])
        return ''.join(out)

    def rw_entry(self, text, rws):
        """RW16: match <map>.entry(<key>) { Entry::Occupied(<o>) => <A>, Entry::Vacant(<v>) => <B> }  (arms in either order)
        -> { let vkey = <key>; if <map>.contains_key(&vkey) { <A'> } else { <B'> } }  where <o>.insert(x) / <v>.insert(x)
        become <map>.insert(vkey, x).  Any other use of the entry binders leaves the text unchanged (and outside Verus)."""
        m_text = mask(text)
        m = re.search(r'\bmatch\s+(?P<map>self(?:\s*\.\s*\w+)+)\s*\.\s*entry\(', m_text)
        if not m:
            return text
        kclose = match_close(m_text, m.end() - 1)
        key = text[m.end():kclose].strip()
        bo = m_text.index('{', kclose)
        bc = match_close(m_text, bo)
        arms_text = text[bo + 1:bc]
        arms = self.split_arms(arms_text)
        if arms is None or len(arms) != 2:
            return text
        got = {}
        for pat, body in arms:
            pm = re.match(r'^Entry::(Occupied|Vacant)\(\s*(?:mut\s+)?(_|[a-z_]\w*)\s*\)$', pat.strip())
            if not pm or pm.group(1) in got:
                return text
            got[pm.group(1)] = (pm.group(2), body.strip())
        if set(got) != {'Occupied', 'Vacant'}:
            return text
        mp = re.sub(r'\s+', '', text[m.start('map'):m.end('map')])
        new_arms = {}
        for k, (binder, body) in got.items():
            if binder != '_':
                body2 = re.sub(r'\b%s\s*\.\s*insert\(' % re.escape(binder), '%s.insert(vkey, ' % mp, body)
                if re.search(r'\b%s\b' % re.escape(binder), mask(body2)):
                    return text
                body = body2
            if not body.startswith('{'):
                body = '{ ' + body + ' }'
            new_arms[k] = body
        ls = m_text.rfind('\n', 0, m.start()) + 1
        ind = re.match(r'[ \t]*', text[ls:]).group(0)
        new = '{\n%s    let vkey = %s;\n%s    if %s.contains_key(&vkey) %s else %s\n%s}' % (
            ind, key, ind, mp, new_arms['Occupied'], new_arms['Vacant'], ind)
        rws.append(('RW16', text[m.start():bc + 1], new))
        return text[:m.start()] + new + text[bc + 1:]

    @staticmethod
    def split_arms(arms_text):
        """[(pattern, body)] of a match whose arms are `pat => expr,` or `pat => { .. }`; None if not understood"""
        m = mask(arms_text)
        res, i, n = [], 0, len(m)
        while True:
            while i < n and m[i] in ' \t\n,':
                i += 1
            if i >= n:
                break
            j = m.find('=>', i)
            if j < 0:
                return None
            pat = arms_text[i:j]
            k = j + 2
            while k < n and m[k] in ' \t\n':
                k += 1
            if k < n and m[k] == '{':
                e = match_close(m, k) + 1
            else:
                depth, e = 0, k
                while e < n and not (m[e] == ',' and depth == 0):
                    if m[e] in '([{':
                        depth += 1
                    elif m[e] in ')]}':
                        depth -= 1
                    e += 1
            res.append((pat, arms_text[k:e]))
            i = e
        return res

    def gen_fn(self, g, fd):
        if fd.id in self.force_assumed and fd.mode == 'verify':
            fd.mode = 'assumed'
            g.demoted = getattr(g, 'demoted', []) + [fd.id]
        if fd.id in self.force_drop:
            tags = set(fd.tags)
            for sec in fd.sections:
                tags |= set(sec.tags)
            g.lost_functions = getattr(g, 'lost_functions', []) + [dict(id=fd.id, path=fd.path, mode=fd.mode, tags=sorted(tags), why='signature no longer compiles in the unit')]
            return
        rf = self.rf(fd.file)
        try:
            it = rf.find('fn', fd.path)
        except ExtractError as e:
            if 'not found' not in str(e):
                raise
            # the function is gone (inlined into its caller, renamed): nothing to extract.  Its callers are verified on
            # their own text; the properties its clauses carried are told so (vf/main.py)
            tags = set(fd.tags)
            for sec in fd.sections:
                tags |= set(sec.tags)
            g.lost_functions = getattr(g, 'lost_functions', []) + [dict(id=fd.id, path=fd.path, mode=fd.mode, tags=sorted(tags))]
            return
        fp = FnParts(rf, it)
        src = fp.text
        fid = fd.id
        info = dict(id=fid, file=fd.file, path=fd.path, line=fp.src_line, mode=fd.mode,
                    sha256=hashlib.sha256(src.encode()).hexdigest(), rewrites=[], tags=fd.tags,
                    src_text=src, origin=fd.origin, dropped_attributes=[
                        l.strip() for l in fp.attrs.split('\n') if l.strip().startswith('#[')])
        info['contract_sha'] = hashlib.sha256('\n'.join(
            l.strip() for sec in fd.sections if sec.kind in ('requires', 'ensures') for l in sec.lines if l.strip()).encode()).hexdigest()[:16]
        g.fns[fid] = info
        # names the contract text was written against (committed baseline) vs. names in the current text:
        # a pure renaming of parameters/locals is followed, so that it does not strand the proof script
        cur_params, cur_locs = binder_names(mask(src))
        info['binders'] = dict(params=cur_params, locals=cur_locs)
        # shape of the signature with parameter names blanked: a change here means the contract may be stale
        _m = mask(src)
        _sig = src[:_m.index('{')] if '{' in _m else src
        for _i, _n in enumerate(cur_params):
            _sig = re.sub(r'\b%s\b' % re.escape(_n), '$%d' % _i, _sig)
        info['sig_shape'] = hashlib.sha256(' '.join(_sig.split()).encode()).hexdigest()[:16]
        base = self.names_baseline().get(fd.path)
        rename = {}
        if base:
            for old_l, new_l in ((base.get('params', []), cur_params), (base.get('locals', []), cur_locs)):
                if len(old_l) == len(new_l):
                    for a, b in zip(old_l, new_l):
                        if a != b:
                            if rename.get(a, b) != b:
                                rename = None
                                break
                            rename[a] = b
                if rename is None:
                    break
            if rename:
                # refuse ambiguous maps (two old names to one new name, or a new name that is also an old one kept elsewhere)
                olds = set(base.get('params', []) + base.get('locals', []))
                if len(set(rename.values())) != len(rename) or any(b in olds and b not in rename for b in rename.values()):
                    rename = {}
        rename = rename or {}
        info['renamed'] = rename
        if rename:
            # not a field access (.name) and not a struct-field label (name: ...)
            rx = re.compile(r'(?<![.\w])(%s)\b(?!\s*:(?!:))' % '|'.join(re.escape(k) for k in rename))
            for sec in fd.sections:
                if sec.kind == 'rewrite':
                    sec.args = [sec.args[0], rx.sub(lambda m: rename[m.group(1)], sec.args[1]), rx.sub(lambda m: rename[m.group(1)], sec.args[2])]
                    continue
                sec.lines = [rx.sub(lambda m: rename[m.group(1)], ln) for ln in sec.lines]
                if sec.kind in ('after', 'before'):
                    sec.args = [sec.args[0], rx.sub(lambda m: rename[m.group(1)], sec.args[1])]
            g.rewrites.append(dict(fn=fid, id='NAMES', frm=', '.join(sorted(rename)), to=', '.join(rename[k] for k in sorted(rename))))
        text = src
        rws = []
        if fd.mode != 'verify':
            # only the signature is emitted: signature-level declared rewrites (type alias expansion, dyn auto traits) still apply
            for sec in fd.sections:
                if sec.kind == 'rewrite' and sec.args[0] in ('RW12', 'RW14'):
                    rid, pat, rep = sec.args
                    m = re.search(pat, text, re.S)
                    if m:
                        new_ = m.expand(rep)
                        rws.append((rid, m.group(0), new_))
                        text = text[:m.start()] + new_ + text[m.end():]
        if fd.mode == 'verify':
            text, rws = self.auto_rewrites(text)
            if fd.opts.get('fmt') == '1':
                text = self.rw_format(text, rws)
                # the abstraction function of the unit was written for these literal pieces (the key format):
                # if they change, the contract text describes the OLD representation -> the function is shaky
                if 'fmtlits' in fd.opts:
                    lits = ';'.join('|'.join(re.findall(r'"([^"]*)"', c)) for a, b, c in rws if a == 'RW15')
                    if lits != fd.opts['fmtlits']:
                        g.lost_anchors.append('%s.rewrite.RW15lits' % fid)
            if fd.opts.get('entry') == '1':
                text = self.rw_entry(text, rws)
            if fd.opts.get('split') == '1':
                # RW18: <recv>.splitn(<n>, <pat>).collect::<Vec<&str>>() -> vsplitn_collect(<recv>, <n>, <pat>)
                #       <recv>.split(<pat>).collect::<Vec<&str>>()        -> vsplit_collect(<recv>, <pat>)
                def rw18(m):
                    new = 'v%s_collect(%s, %s)' % (m.group('fn'), m.group('recv'), m.group('args').strip())
                    rws.append(('RW18', m.group(0), new))
                    return new
                text = self.masked_sub(r'(?<![\w.])(?P<recv>[A-Za-z_]\w*)\s*\.\s*(?P<fn>splitn|split)\((?P<args>[^()]*)\)\s*\.\s*collect::<Vec<&str>>\(\)', rw18, text)
                # RW18b: let <v> = <recv>.split(<pat>);  (a lazy Split iterator, later consumed by one `for`) -> the collected Vec
                def rw18b(m):
                    new = '= vsplit_collect(%s, %s);' % (m.group('recv'), m.group('args').strip())
                    rws.append(('RW18b', m.group(0), new))
                    return new
                text = self.masked_sub(r'=\s*(?P<recv>[A-Za-z_]\w*)\s*\.\s*split\((?P<args>[^()]*)\);', rw18b, text)
            if fd.opts.get('split') == '1' or fd.opts.get('forvec') == '1':
                # RW19: for <x> in <vec> {  ->  for <x> in vit: <vec> {   (names Verus' ghost iterator; no executable change)
                def rw19(m):
                    new = 'for %s in vit: %s' % (m.group('x'), m.group('v'))
                    rws.append(('RW19', m.group(0), new))
                    return new
                if fd.opts.get('forwhile') == '1':
                    # RW19w: for <x> in <vec> { B }  ->  let mut vi: usize = 0; while vi < <vec>.len() { let <x> = <vec>[vi]; vi = vi + 1; B }
                    # (Verus: "for-loops do not yet support continue"; the index is advanced before B, so `continue` keeps its meaning)
                    mt = mask(text)
                    m19 = re.search(r'\bfor\s+(?P<x>[a-z_]\w*)\s+in\s+(?P<v>[a-z_]\w*)(?=\s*\{)', mt)
                    if m19:
                        x, v = m19.group('x'), m19.group('v')
                        brace = mt.index('{', m19.end())
                        head = 'let mut vi: usize = 0; while vi < %s.len()' % v
                        first = ' let %s = %s[vi]; vi = vi + 1;' % (x, v)
                        rws.append(('RW19w', text[m19.start():m19.end()], head))
                        rws.append(('RW19w', '', first))
                        text = text[:m19.start()] + head + text[m19.end():brace + 1] + first + text[brace + 1:]
                else:
                    text = self.masked_sub(r'\bfor\s+(?P<x>[a-z_]\w*)\s+in\s+(?P<v>[a-z_]\w*)(?=\s*\{)', rw19, text)
            for sec in fd.sections:
                if sec.kind == 'rewrite':
                    rid, pat, rep = sec.args
                    m = re.search(pat, text, re.S)
                    if not m:
                        # the code changed shape here; go on without the rewrite (Verus decides whether
                        # the new text is within its subset)
                        g.lost_anchors.append('%s.rewrite.%s' % (fid, rid))
                        continue
                    new = m.expand(rep)
                    rws.append((rid, m.group(0), new))
                    text = text[:m.start()] + new + text[m.end():]
        # RW10: drop the visibility qualifier (Verus forbids private fields in contracts of pub fns)
        mvis = re.match(r'([ \t]*)(pub(?:\([^)]*\))?[ \t]+)', text)
        if mvis:
            text = mvis.group(1) + text[mvis.end():]
            rws.append(('RW10', mvis.group(2), ''))
        masked = mask(text)
        # body open: first '{' at bracket depth 0 after the parameter list
        p = masked.find('(')
        q = match_close(masked, p)
        bo = q
        while masked[bo] != '{':
            if masked[bo] in '([':
                bo = match_close(masked, bo)
            bo += 1
        sig = text[:bo]
        msig = masked[:bo]
        # RW6: name the return value
        arrow = msig.find('->', q)
        if arrow >= 0:
            wh = re.search(r'\bwhere\b', msig[arrow:])
            rt_end = arrow + wh.start() if wh else len(sig)
            rt = sig[arrow + 2:rt_end].strip()
            new_sig = sig[:arrow] + '-> (r: %s)' % rt + (' ' + sig[rt_end:].strip() if wh else '')
            rws.append(('RW6', '-> ' + rt, '-> (r: %s)' % rt))
        else:
            new_sig = sig.rstrip()
        info['rewrites'] = [dict(id=a, frm=b, to=c) for a, b, c in rws]
        g.rewrites += [dict(fn=fid, id=a, frm=b, to=c) for a, b, c in rws]
        indent = re.match(r'[ \t]*', src).group(0)
        ind2 = indent + '    '

        def clause_id(sec, idx):
            base = sec.id or '%s%d' % (sec.kind, idx)
            return '%s.%s' % (fid, base)

        def marked(sec, cid):
            out = []
            for ln in sec.lines:
                if ln.strip() == '':
                    continue
                out.append('%s //@%s' % (ln.rstrip(), cid))
            return out

        counters = {}

        def reg(sec):
            counters[sec.kind] = counters.get(sec.kind, 0) + 1
            cid = clause_id(sec, counters[sec.kind])
            if cid in g.clauses:
                raise ExtractError('duplicate clause id %s' % cid)
            tags = sec.tags or fd.tags
            g.clauses[cid] = dict(fn=fid, kind=sec.kind, tags=tags, role=sec.role, secondary=list(getattr(sec, 'secondary', [])),
                                  text='\n'.join(l.strip() for l in sec.lines if l.strip()),
                                  enabled=cid not in self.disabled, mode=fd.mode)
            return cid, tags

        # ---- spec block
        spec_lines = []
        spec_meta = []
        for kw in ('opens', 'requires', 'ensures', 'decreases'):
            secs = [s for s in fd.sections if s.kind == kw]
            if not secs:
                continue
            first = True
            for sec in secs:
                cid, tags = reg(sec)
                if kw != 'opens' and first:
                    spec_lines.append('%s%s //@%s' % (ind2, kw, cid))
                    spec_meta.append((cid, tags, sec.role))
                    first = False
                for ml in marked(sec, cid):
                    spec_lines.append(ml)
                    spec_meta.append((cid, tags, sec.role))
        attr_lines = []
        for sec in fd.sections:
            if sec.kind == 'attr':
                cid, tags = reg(sec)
                for ml in marked(sec, cid):
                    attr_lines.append((ml, cid, tags))

        g.emit('//@@begin %s' % fid, kind='framework')
        for ml, cid, tags in attr_lines:
            g.emit(ml, kind='clause', fn=fid, clause=cid, tags=tags, role='attr')
        if fd.mode != 'verify':
            g.emit('%s#[verifier::external_body] //@%s.assumed' % (indent, fid), kind='clause', fn=fid,
                   clause=fid + '.assumed', tags=[], role='attr')
        src_line0 = fp.src_line
        # signature
        n_sig_lines = new_sig.rstrip().count('\n') + 1
        for k, ln in enumerate(new_sig.rstrip().split('\n')):
            g.emit(ln, kind='verbatim', fn=fid, src='%s:%d' % (fd.file, src_line0 + k))
        for ln, (cid, tags, role) in zip(spec_lines, spec_meta):
            g.emit(ln, kind='clause', fn=fid, clause=cid, tags=tags, role=role)
        if fd.mode != 'verify':
            g.emit('%s{ unimplemented!() } //@%s.assumed' % (indent, fid), kind='clause', fn=fid,
                   clause=fid + '.assumed', tags=[], role='attr')
            g.emit('//@@end %s' % fid, kind='framework')
            return

        # ---- body with insertions (character offsets into `text`)
        body = text[bo:]
        mbody = masked[bo:]
        inserts = []  # (offset in body, order, [lines], cid, tags, role, splitline)
        order = [0]

        def add(off, lines, cid, tags, role, split=False):
            order[0] += 1
            inserts.append((off, order[0], lines, cid, tags, role, split))

        # loops
        loops = []
        loop_heads = []
        for m in re.finditer(r'\b(for|while|loop)\b', mbody):
            # header ends at first '{' at paren depth 0
            j = m.end()
            ok = True
            while j < len(mbody) and mbody[j] != '{':
                if mbody[j] in '([':
                    j = match_close(mbody, j)
                elif mbody[j] in ';}':
                    ok = False
                    break
                j += 1
            if ok and j < len(mbody):
                loops.append(j)
                k2 = j
                # header text up to the end of the line holding the '{' (tells `while let … {}` from `while let … {`)
                eol = body.find('\n', j)
                loop_heads.append(' '.join(body[m.start():(eol if eol >= 0 else len(body))].split()))
        info['loops'] = len(loops)
        body_lines_off = [0]
        for m in re.finditer(r'\n', body):
            body_lines_off.append(m.end())

        def line_bounds(k):
            a = body_lines_off[k]
            b = body_lines_off[k + 1] - 1 if k + 1 < len(body_lines_off) else len(body)
            return a, b

        for sec in fd.sections:
            if sec.kind in ('requires', 'ensures', 'decreases', 'rewrite', 'attr', 'opens'):
                continue
            cid, tags = reg(sec)
            if cid in self.disabled:
                continue
            ml = marked(sec, cid)
            if sec.kind == 'entry':
                add(1, ml, cid, tags, sec.role)
            elif sec.kind == 'loop':
                n = sec.args[0]
                pat = sec.args[1] if len(sec.args) > 1 else None
                cand = [k for k in range(len(loops)) if pat is None or re.search(pat, loop_heads[k])]
                if n > len(cand):
                    g.lost_anchors.append(cid)
                    continue
                add(loops[cand[n - 1]], ml, cid, tags, sec.role, True)
            else:
                n, pat = sec.args
                rx = re.compile(pat)
                hits = []
                for k in range(len(body_lines_off)):
                    a, b = line_bounds(k)
                    if rx.search(body[a:b].strip()) and mbody[a:b].strip():
                        hits.append(k)
                if n > len(hits):
                    g.lost_anchors.append(cid)
                    continue
                a, b = line_bounds(hits[n - 1])
                add(a if sec.kind == 'before' else b + 1, ml, cid, tags, sec.role)
        if self.canary and fid in self.canary:
            # assert(false) at function entry: must be reported unless `requires` is contradictory
            cid = fid + '.canary'
            g.clauses[cid] = dict(fn=fid, kind='canary', tags=[], role='canary', text='assert(false)', enabled=True, mode='verify')
            add(1, ['%sproof { assert(false); } //@%s' % (ind2, cid)], cid, [], 'canary')

        # assemble
        inserts.sort(key=lambda x: (x[0], x[1]))
        pieces = []  # (text, meta)
        pos = 0
        out_lines = []  # (line text, meta)

        def push_verbatim(chunk):
            pieces.append(('v', chunk))

        for off, _o, lines, cid, tags, role, split in inserts:
            push_verbatim(body[pos:off])
            pieces.append(('i', lines, cid, tags, role, split))
            pos = off
        push_verbatim(body[pos:])

        cur = ''
        cur_has_src = False
        src_ln = src_line0 + sig.count('\n')  # line holding the body '{'
        result = []  # (text, meta)
        # We rebuild line by line; an insertion in the middle of a line (split) breaks the line.
        buf = ''
        for pc in pieces:
            if pc[0] == 'v':
                buf += pc[1]
            else:
                _, lines, cid, tags, role, split = pc
                # flush buffer up to here
                if buf:
                    if buf.endswith('\n'):
                        seg = buf[:-1]
                        for ln in seg.split('\n'):
                            result.append((ln, 'v'))
                    else:
                        segs = buf.split('\n')
                        for ln in segs[:-1]:
                            result.append((ln, 'v'))
                        if segs[-1].strip():
                            result.append((segs[-1].rstrip(), 'v'))
                        # the remainder of this source line continues after the insertion
                        result.append(('', 'cont'))
                    buf = ''
                for ln in lines:
                    result.append((ln, ('c', cid, tags, role)))
        if buf:
            seg = buf[:-1] if buf.endswith('\n') else buf
            for ln in seg.split('\n'):
                result.append((ln, 'v'))
        # merge 'cont' markers: the verbatim line following a cont marker gets the //@^ mark
        first_body_line = True
        pending_cont = False
        srcl = src_ln
        for ln, meta in result:
            if meta == 'cont':
                pending_cont = True
                continue
            if meta == 'v':
                if first_body_line:
                    # body '{' continues the last signature line
                    g.emit(indent + ln.strip() + ' //@^', kind='verbatim', fn=fid, src='%s:%d' % (fd.file, srcl))
                    first_body_line = False
                    continue
                if pending_cont:
                    g.emit(indent + ln.strip() + ' //@^', kind='verbatim', fn=fid, src='%s:%d' % (fd.file, srcl))
                    pending_cont = False
                    continue
                srcl += 1
                g.emit(ln, kind='verbatim', fn=fid, src='%s:%d' % (fd.file, srcl))
            else:
                _, cid, tags, role = meta
                g.emit(ln, kind='clause', fn=fid, clause=cid, tags=tags, role=role)
        g.emit('//@@end %s' % fid, kind='framework')


def roundtrip(gen_text, g):
    """Check that the generated file, with framework lines removed and rewrites
    undone, is token-identical to the repository text.  Returns list of problems."""
    problems = []
    lines = gen_text.split('\n')
    regions = {}
    cur = None
    for ln in lines:
        m = re.match(r'\s*//@@begin (\S+)', ln)
        if m:
            cur = m.group(1)
            regions[cur] = []
            continue
        if re.match(r'\s*//@@end ', ln):
            cur = None
            continue
        if cur is not None:
            regions[cur].append(ln)
    for fid, info in g.fns.items():
        if fid not in regions:
            problems.append('%s: region missing' % fid)
            continue
        kept = []
        for ln in regions[fid]:
            m = MARK_RE.search(ln)
            if m:
                if m.group(1) == '^':
                    kept.append(MARK_RE.sub('', ln))
                continue
            kept.append(ln)
        txt = '\n'.join(kept)
        for rw in reversed(info['rewrites']):
            if rw['id'] == 'RW10':
                m0 = re.match(r'[ \t]*', txt)
                txt = txt[:m0.end()] + rw['frm'] + txt[m0.end():]
                continue
            if rw['to'] not in txt:
                problems.append('%s: rewrite %s not found on the way back' % (fid, rw['id']))
                continue
            # undo the last occurrence (rewrites were applied left to right)
            k = txt.rfind(rw['to'])
            txt = txt[:k] + rw['frm'] + txt[k + len(rw['to']):]
        src = info['src_text']
        if info['mode'] != 'verify':
            # only the signature is present
            m = mask(src)
            p = m.find('(')
            q = match_close(m, p)
            bo = q
            while m[bo] != '{':
                if m[bo] in '([':
                    bo = match_close(m, bo)
                bo += 1
            src = src[:bo]
        if tokens(txt) != tokens(src):
            a, b = tokens(txt), tokens(src)
            k = 0
            while k < min(len(a), len(b)) and a[k] == b[k]:
                k += 1
            problems.append('%s: generated text differs from repository text at token %d: %r vs %r'
                            % (fid, k, a[k:k + 6], b[k:k + 6]))
    for it in g.items:
        if it['id'] not in regions:
            problems.append('%s: region missing' % it['id'])
            continue
        kept = [ln for ln in regions[it['id']] if not MARK_RE.search(ln)]
        txt = '\n'.join(kept)
        for rw in reversed(it.get('rewrites', [])):
            if rw['to'] == 'pub':
                txt = re.sub(r'\bpub\b(?!\()', rw['frm'], txt, count=1)
            elif rw['to'] in txt:
                k = txt.rfind(rw['to'])
                txt = txt[:k] + rw['frm'] + txt[k + len(rw['to']):]
        if tokens(txt) != tokens(it['src_text']):
            problems.append('%s: item text differs from repository text' % it['id'])
    return problems
