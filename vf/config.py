"""Which units / harnesses decide which property."""

# unit -> Verus rlimit
UNIT_RLIMIT = {'conn': 60, 'lemmas': 60, 'request': 60, 'client': 60, 'response': 60}

PROPS = {
    'C01': dict(units=['conn'], kani=[],
                title='Delivered requests depend only on the byte stream, not on how reads split it'),
    'C02': dict(units=['conn'], kani=[],
                title='Accepted requests are exactly those of the documented grammar'),
    'C03': dict(units=['conn'], kani=[],
                title='No input makes any parsing entry point panic, hang or block'),
    'C04': dict(units=['conn'], kani=[], title='Payload and line-length limits are enforced exactly and before buffering'),
    'C05': dict(units=[], kani=[], title='Serialized responses are well-formed and self-delimiting'),
    'C06': dict(units=['conn'], kani=[], title='Queued responses reach the stream completely, once, in order'),
    'C07': dict(units=[], kani=[], title='A response is delivered only to the connection that sent its request'),
    'C09': dict(units=[], kani=[], title='No client can wedge the server'),
    'C11': dict(units=['conn'], kani=[], title='A rejected request is never delivered later'),
    'C12': dict(units=['conn'], kani=[], title='Descriptors passed with a request are delivered once, in order'),
    'C13': dict(units=['conn'], kani=[], title='100 Continue is sent exactly when asked for'),
    'C14': dict(units=[], kani=[], title='One-shot request parsing agrees with the connection'),
    'C16': dict(units=[], kani=[],
                title='Token and URI functions are exact, case-sensitive and round-trip'),
}
