"""Which units / harnesses decide which property."""

# unit -> Verus rlimit ("roughly seconds"); every function is far below it on the unchanged tree
UNIT_RLIMIT = {'conn': 60, 'lemmas': 60, 'oneshot': 150, 'request': 60, 'client': 60, 'response': 120, 'router': 60, 'headers': 60, 'server': 60}

PROPS = {
    'C01': dict(units=['conn', 'lemmas', 'client'], kani=['find_first_match_1', 'find_first_match_2'],
                title='Delivered requests depend only on the byte stream, not on how reads split it'),
    'C02': dict(units=['conn', 'request', 'headers'], kani=['method_try_from_exact', 'version_try_from_exact', 'method_roundtrip', 'version_roundtrip', 'find_first_match'],
                title='Accepted requests are exactly those of the documented grammar'),
    'C03': dict(units=['conn', 'request', 'client', 'response', 'server', 'headers'],
                kani=['method_try_from_exact', 'version_try_from_exact', 'find_first_match', 'uri_abs_path_all'],
                title='No input makes any parsing entry point panic, hang or block'),
    'C04': dict(units=['conn', 'lemmas', 'client', 'headers', 'server'], kani=[], title='Payload and line-length limits are enforced exactly and before buffering'),
    'C05': dict(units=['response'], kani=['status_code_raw', 'mediatype_as_str', 'header_raw_names', 'status_line_bytes', 'write_body_bytes', 'deprecation_header_line', 'allow_header_line'],
                title='Serialized responses are well-formed and self-delimiting'),
    'C06': dict(units=['conn'], kani=[], title='Queued responses reach the stream completely, once, in order'),
    'C07': dict(units=['client', 'server', 'conn'], kani=[], title='A response is delivered only to the connection that sent its request'),
    'C09': dict(units=['client'], kani=[], title='No client can wedge the server'),
    'C11': dict(units=['conn', 'lemmas', 'client'], kani=[], title='A rejected request is never delivered later'),
    'C12': dict(units=['conn', 'lemmas'], kani=[], title='Descriptors passed with a request are delivered once, in order'),
    'C13': dict(units=['conn', 'lemmas', 'client', 'response', 'headers'], kani=[], title='100 Continue is sent exactly when asked for'),
    'C14': dict(units=['request', 'oneshot', 'conn', 'response', 'headers'], kani=['find_first_match'],
                title='One-shot request parsing agrees with the incremental connection parser',
                hypotheses=['hyp_block: Headers::try_from(block) succeeds with h iff folding Headers::parse_header_line (ignoring UnsupportedValue) over the CRLF-separated lines of the block succeeds with h -- C15\'s block-vs-lines clause, str/HashMap code, ASSUMED as an identity between functions; its relational form (Headers::try_from is the fold of parse_header_line over the CRLF-split lines from the default header set, stopping at the first empty line, ignoring UnsupportedValue) is PROVED on the real code in unit headers (clause Headers.try_from.block)',
                            'hyp_request_line: the request-line function used by the connection satisfies rl_outcome_ok / (Ok <=> rl_accepts) -- PROVED for RequestLine::try_from in unit request; that the connection calls a pure function is assumed',
                            'hyp_default: Headers::default() has Content-Length 0 -- PROVED on the real Default impl in unit response (clause Headers.default_values.zero)']),
    'C15': dict(units=['headers'], kani=[],
                title='Header rules: case-insensitive names, trimmed values, tolerant vs fatal faults'),
    'C17': dict(units=['router', 'response', 'request'], kani=['uri_abs_path_all'],
                title='Router dispatches to exactly the handler registered for (method, prefix+path)'),
    'C16': dict(units=['headers'], kani=['method_try_from_exact', 'version_try_from_exact', 'method_roundtrip', 'version_roundtrip',
                               'status_code_raw', 'mediatype_as_str', 'uri_abs_path_all'],
                title='Token and URI functions are exact, case-sensitive and round-trip'),
}
