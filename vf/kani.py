"""Kani leg: leaf functions Verus cannot read.  A scratch copy of the repository gets the harness
files appended as cfg(kani) child modules; /repo itself is never modified.  Every harness states its
bound; only finite-domain harnesses are `complete`."""
import os
import re
import shutil
import subprocess
import tempfile
import time

VERIF = os.path.dirname(os.path.dirname(os.path.abspath(__file__)))

# name -> (target function, properties, bound text, complete?, optional?)
HARNESSES = {
    'method_try_from_exact': ('Method::try_from', ['C02', 'C16', 'C03'], 'all byte strings of length <= 16 (the match inspects length and at most 5 bytes)', False, False),
    'version_try_from_exact': ('Version::try_from', ['C02', 'C16', 'C03'], 'all byte strings of length <= 16 (the match inspects length and at most 8 bytes)', False, False),
    'method_roundtrip': ('Method::{raw,to_str,try_from}', ['C16', 'C02'], 'all 3 methods', True, False),
    'version_roundtrip': ('Version::{raw,try_from}', ['C16', 'C02'], 'both versions', True, False),
    'status_code_raw': ('StatusCode::raw', ['C16', 'C05'], 'all 11 x 11 pairs of status codes', True, False),
    'mediatype_as_str': ('MediaType::as_str', ['C16', 'C05'], 'both media types', True, False),
    'header_raw_names': ('Header::raw', ['C05'], 'all 7 header names', True, False),
        'find_first_match_1': ('request::find', ['C01', 'C02', 'C03'], 'haystacks <= 10 bytes, needle of 1 byte', False, False),
    'find_first_match_2': ('request::find', ['C01', 'C02', 'C03'], 'haystacks <= 10 bytes, needle of 2 bytes', False, False),
    'find_first_match_4': ('request::find', ['C02', 'C03', 'C14'], 'haystacks <= 10 bytes, needle of 4 bytes', False, False),
    'uri_abs_path': ('Uri::get_abs_path', ['C16', 'C03'], 'all UTF-8 URIs of length <= 12 bytes over the alphabet {h,t,p,:,/,a,.,%,U+00E9}', False, False),
    'uri_abs_path_http3': ('Uri::get_abs_path', ['C16', 'C03'], '"http://" + all UTF-8 suffixes of <= 3 bytes over the property alphabet', False, False),
    'uri_abs_path_http8': ('Uri::get_abs_path', ['C16', 'C03'], '"http://" + all UTF-8 suffixes of <= 8 bytes over the property alphabet (URIs up to 15 bytes)', False, False),
    'status_line_bytes': ('StatusLine::write_all', ['C05'], 'all versions x all status codes', True, False),
    'write_body_bytes': ('Response::write_body', ['C05'], 'bodies of <= 4 bytes, with and without body', False, False),
    'deprecation_header_line': ('ResponseHeaders::write_deprecation_header', ['C05'], 'both flag values', True, False),
    'allow_header_line_0': ('ResponseHeaders::write_allow_header', ['C05'], 'the empty Allow list', True, False),
    'allow_header_line_1': ('ResponseHeaders::write_allow_header', ['C05'], 'all Allow lists of 1 method', False, False),
    'allow_header_line_2': ('ResponseHeaders::write_allow_header', ['C05'], 'all Allow lists of 2 methods (1.5 min)', False, False),
    'allow_header_line_3': ('ResponseHeaders::write_allow_header', ['C05'], 'all Allow lists of 3 methods (4 min)', False, True),
}

GROUPS = {
    'find_first_match': ['find_first_match_1', 'find_first_match_2', 'find_first_match_4'],
    'uri_abs_path_all': ['uri_abs_path', 'uri_abs_path_http3', 'uri_abs_path_http8'],
    'allow_header_line': ['allow_header_line_0', 'allow_header_line_1', 'allow_header_line_2', 'allow_header_line_3'],
}


def expand(names):
    out = []
    for n in names:
        out += GROUPS.get(n, [n])
    return [n for n in out if n in HARNESSES]


def run_harnesses(names, repo, tier, timeout=None):
    names = expand(names)
    if tier == 'quick':
        # the long bounded ones only run in the thorough tier
        names = [n for n in names if not HARNESSES[n][4]]
    if not names:
        return []
    timeout = timeout or (900 if tier == 'quick' else 2400)
    scratch = tempfile.mkdtemp(prefix='verif_kani_')
    t0 = time.time()
    res = []
    try:
        for item in os.listdir(repo):
            if item in ('target', '.git'):
                continue
            src = os.path.join(repo, item)
            dst = os.path.join(scratch, item)
            if os.path.isdir(src):
                shutil.copytree(src, dst)
            else:
                shutil.copy2(src, dst)
        shutil.copy(os.path.join(VERIF, 'kani', 'harness.rs'), os.path.join(scratch, 'src', 'verif_kani.rs'))
        shutil.copy(os.path.join(VERIF, 'kani', 'harness_request.rs'), os.path.join(scratch, 'src', 'verif_kani_request.rs'))
        lib = os.path.join(scratch, 'src', 'lib.rs')
        with open(lib) as f:
            lib_text = f.read()
        with open(lib, 'w') as f:
            f.write('#![cfg_attr(kani, feature(variant_count))]\n' + lib_text + '\n#[cfg(kani)]\nmod verif_kani;\n')
        with open(os.path.join(scratch, 'src', 'request.rs'), 'a') as f:
            f.write('\n#[cfg(kani)]\n#[path = "verif_kani_request.rs"]\nmod verif_kani_request;\n')
        shutil.copy(os.path.join(VERIF, 'kani', 'harness_response.rs'), os.path.join(scratch, 'src', 'verif_kani_response.rs'))
        with open(os.path.join(scratch, 'src', 'response.rs'), 'a') as f:
            f.write('\n#[cfg(kani)]\n#[path = "verif_kani_response.rs"]\nmod verif_kani_response;\n')
        env = dict(os.environ, CARGO_NET_OFFLINE='true', CARGO_TARGET_DIR=os.path.join(scratch, 'target'))
        # which harness lives in which appended file (a harness file that no longer compiles against this tree --
        # it names a private function that was renamed or inlined -- must not take the other files down with it)
        hfiles = {'verif_kani.rs': ('lib.rs', 'harness.rs'), 'verif_kani_request.rs': ('request.rs', 'harness_request.rs'),
                  'verif_kani_response.rs': ('response.rs', 'harness_response.rs')}
        where = {}
        for hf, (_, srcname) in hfiles.items():
            txt = open(os.path.join(VERIF, 'kani', srcname)).read()
            for n in names:
                if re.search(r'\bfn\s+%s\s*\(' % re.escape(n), txt):
                    where[n] = hf
        stale = {}   # harness -> reason
        run_names = list(names)
        out = ''
        timed_out = False
        for attempt in range(3):
            if not run_names:
                break
            cmd = ['cargo', 'kani', '-j', '8', '--output-format', 'terse']
            for n in run_names:
                cmd += ['--harness', n]
            try:
                p = subprocess.run(cmd, cwd=scratch, capture_output=True, text=True, timeout=timeout, env=env)
                out = p.stdout + '\n' + p.stderr
                timed_out = False
            except subprocess.TimeoutExpired as e:
                out = ((e.stdout or b'').decode() if isinstance(e.stdout, bytes) else (e.stdout or '')) + '\nTIMEOUT'
                timed_out = True
            if timed_out or 'Checking harness' in out:
                break
            bad = [hf for hf in hfiles if re.search(r'error[^\n]*\n\s*-->\s*src/%s:' % re.escape(hf), out)]
            if not bad:
                break
            for hf in bad:
                host, _ = hfiles[hf]
                hp = os.path.join(scratch, 'src', host)
                txt = open(hp).read()
                txt = re.sub(r'\n#\[cfg\(kani\)\]\n(?:#\[path = "%s"\]\n)?mod %s;\n' % (re.escape(hf), re.escape(hf[:-3])), '\n', txt)
                open(hp, 'w').write(txt)
                for n in list(run_names):
                    if where.get(n) == hf:
                        run_names.remove(n)
                        stale[n] = 'harness does not compile against this tree (%s): %s' % (hf, (re.findall(r'error[^\n]*\n\s*-->\s*src/%s[^\n]*' % re.escape(hf), out) or [''])[0][:300])
        wall = time.time() - t0
        # split per harness (with -j the terse output is prefixed by `Thread k:`)
        per = {}
        cur = {}       # thread -> harness name
        active = None  # thread whose block we are reading
        for ln in out.split('\n'):
            m = re.match(r'(?:Thread (\d+): )?Checking harness ([\w:]+)\.\.\.', ln)
            if m:
                t = m.group(1) or '0'
                cur[t] = m.group(2).split('::')[-1]
                per.setdefault(cur[t], '')
                active = t
                continue
            m = re.match(r'Thread (\d+):\s*(.*)$', ln)
            if m:
                active = m.group(1)
                ln = m.group(2)
            if active is not None and active in cur:
                per[cur[active]] += ln + '\n'
        compile_err = None
        if not per and not timed_out:
            compile_err = out[-2500:]
        for n in names:
            target, props, bound, complete, optional = HARNESSES[n]
            h = dict(name=n, target=target, props=props, bound=bound, complete=complete, optional=optional,
                     cmd='cargo kani --harness %s (scratch copy of /repo + /verif/kani/harness*.rs)' % n, wall=round(wall, 1),
                     trusted=['kani: %s checked for %s%s' % (target, bound, '' if complete else ' (BOUNDED)')])
            b = per.get(n)
            if n in stale:
                h['status'] = stale[n]
            elif b is None:
                h['status'] = 'timeout' if timed_out else ('compile-error: ' + (compile_err or '')[-600:])
            else:
                m = re.search(r'\*\* (\d+) of (\d+) failed', b)
                if m:
                    h['failed'] = int(m.group(1))
                    h['checks'] = int(m.group(2))
                if 'VERIFICATION:- SUCCESSFUL' in b:
                    h['status'] = 'success'
                elif 'VERIFICATION:- FAILED' in b:
                    h['status'] = 'failed'
                    fails = re.findall(r'Failed Checks: ([^\n]*)', b)
                    h['failed_checks'] = '; '.join(fails[:5])
                    h['output'] = b[-3000:]
                    # an unwinding failure is a bound problem, not a property failure
                    if fails and all('unwinding assertion' in f for f in fails):
                        h['status'] = 'unwind-bound-too-small'
                else:
                    h['status'] = 'timeout' if timed_out else 'no-verdict'
            res.append(h)
    finally:
        shutil.rmtree(scratch, ignore_errors=True)
    return res
