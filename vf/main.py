#!/usr/bin/env python3
"""./check <property> [--tier quick|thorough] [--replay <file>]

Decides one property by re-extracting the functions it depends on from /repo's
current working tree, splicing the contracts of /verif/units, and having Verus
(and Kani for the leaf functions) discharge every obligation.

exit 0  every obligation carrying the property discharged, anti-vacuity checks passed
exit 1  `VIOLATION property=<id> replay=<path>` : an obligation failed for a semantic reason
exit 2  undecided (extraction drift, tool error, resource limit) -- never an alarm
"""
import argparse
import concurrent.futures as cf
import hashlib
import json
import os
import re
import subprocess
import sys
import time

sys.path.insert(0, os.path.dirname(os.path.dirname(os.path.abspath(__file__))))
from vf import unitrun, config, verus  # noqa: E402
from vf.unitrun import VERIF, REPO  # noqa: E402

EVID = os.path.join(VERIF, 'evidence')
REPLAYS = os.path.join(VERIF, 'replays')
KNOWN = os.path.join(VERIF, 'known_findings.txt')
ALLOW = os.path.join(VERIF, 'trusted_allowlist.txt')
MINIMUMS = os.path.join(VERIF, 'units', 'minimums.json')

# properties whose witness search is deterministic (no timing, no socket-buffer dependence)
# property -> (witness mode, quick budget, thorough budget, stated bound): bounded legs that run on EVERY check.
# They drive the real crate (built from /repo) and compare it with a reference written from the property statement
# or with itself; labelled bounded in the evidence, never counted as proved.  For C04/C07/C09 they are the only
# cover of HttpServer::requests / handle_new_connection (fixed server histories); for the others they cover what the
# contracts leave assumed (Response::write_all composition, recv_with_fds, find, Body::new, std str functions).
SCENARIOS = {
    'C01': ('C01', 1500, 20000, 'random pipelined streams x random segmentations (pieces 1..1024 B, empty reads), each compared with the same stream read in 1024-byte pieces'),
    'C02': ('C02', 3000, 50000, 'random grammar-derived and corrupted streams against the reference parser'),
    'C03': ('C03', 1000, 20000, 'random/mutated byte strings through Request::try_from and the connection under catch_unwind; one write per try_write'),
    'C04': ('C04', 1500, 20000, 'random streams around the limits against the reference parser + 7 server histories (limit at connect x limit changed later x declared length)'),
    'C05': ('C05', 5000, 50000, 'responses built through the public API, serialised and re-read by an independent reader'),
    'C06': ('C06', 3000, 30000, 'random response queues x scripted short/zero/EINTR/error writes'),
    'C07': ('C07', 1, 1, '5 histories: four answers in one enqueue_responses batch for two clients; close with a request in flight (after ECONNRESET / after EPIPE), descriptor reuse, late answer; the same at full capacity (10 clients + an eleventh)'),
    'C09': ('C09', 1, 1, '4 histories: the repaired defect; ten half-closed / non-reading clients answered, then an eleventh must be served; a client that never reads a 4 MiB response (polling must return within 20 s, another client is served); requests() never Err'),
    'C11': ('C11', 500, 10000, 'error-inducing prefix A (9 kinds, random segmentation) followed by random B: connection after the error vs new connection'),
    'C12': ('C12', 300, 5000, 'one read with 1/16/17/40/100/253 descriptors, 330 accumulated over three reads, descriptors on an empty SEQPACKET message + open-descriptor count after dropping everything; pipelined streams x segmentations x descriptors attached to reads, told apart by numbered files'),
    'C13': ('C13', 1500, 20000, 'random streams with/without Expect x segmentations: queued 100-continue responses against the reference'),
    'C14': ('C14', 3000, 50000, 'grammar-derived slices and corruptions: Request::try_from vs the connection fed the same bytes (+ probe request)'),
    'C15': ('C15', 2000, 20000, 'random header lines/blocks over the 7 names (letter case, SP/HTAB/Unicode padding, values) against a reference of the rules'),
    'C16': ('C16', 1, 1, 'all strings <= 5 over the token alphabet for method/version/media type; all URIs <= 5 (+ http:// prefixes <= 3) over the property alphabet'),
    'C17': ('C17', 200, 2000, 'random route tables over a 10-path alphabet x 4 prefixes x 3 methods with duplicates; every request in origin- and absolute-form'),
}
WITNESS_FALLBACK = ('C01', 'C02', 'C03', 'C04', 'C05', 'C06', 'C07', 'C09', 'C11', 'C12', 'C13', 'C14', 'C15', 'C16', 'C17')

TRUST_PATTERNS = [r'\bassume\s*\(', r'\badmit\s*\(', r'external_body', r'assume_specification',
                  r'external_type_specification', r'external_trait_specification', r'\buninterp\b',
                  r'external_fn_specification', r'verifier::external\b', r'verifier::exec_allows_no_decreases_clause',
                  r'verifier::truncate', r'assume_new']


def repo_tree_id():
    try:
        head = subprocess.run(['git', '-C', REPO, 'rev-parse', 'HEAD'], capture_output=True, text=True).stdout.strip()
        diff = subprocess.run(['git', '-C', REPO, 'diff', 'HEAD', '--', 'src'], capture_output=True, text=True).stdout
        return head[:12] + ('+dirty:' + hashlib.sha256(diff.encode()).hexdigest()[:10] if diff else '')
    except Exception:
        return 'unknown'


def scan_trusted(g):
    """Every assumption-introducing construct in the generated file, with the item it belongs to."""
    found = []
    lines = g.lines
    for i, ln in enumerate(lines):
        code = ln.split('//')[0] if not ln.strip().startswith('//') else ''
        for pat in TRUST_PATTERNS:
            if re.search(pat, code):
                # name = next fn/struct/trait identifier at or after this line
                name = None
                for j in range(i, min(i + 12, len(lines))):
                    m = re.search(r'\b(?:fn|struct|trait|enum)\s+([A-Za-z_]\w*)', lines[j])
                    if m:
                        name = m.group(1)
                        break
                    m = re.search(r'assume_specification(?:<[^>]*>)?\s*\[\s*([^\]]+)\]', lines[j])
                    if m:
                        name = m.group(1).strip()
                        break
                kind = re.search(pat, code).group(0).strip('( ')
                owner = g.map[i].get('fn') or ''
                if owner in getattr(g, 'demoted', []):
                    break   # reported separately (body outside the subset on this tree), not part of the committed trusted base
                found.append('%s %s%s' % (kind, name or '?', (' [' + owner + ']') if owner and owner != name else ''))
                break
    # de-duplicate keeping order
    seen, out = set(), []
    for f in found:
        if f not in seen:
            seen.add(f)
            out.append(f)
    return out


def load_known():
    known, fixed = [], []
    if os.path.exists(KNOWN):
        for ln in open(KNOWN):
            ln = ln.strip()
            if not ln or ln.startswith('#'):
                continue
            if ln.startswith('fixed:'):
                fixed.append(ln)
            elif ln.startswith('known:'):
                d = dict(re.findall(r'(\w+)=(\S+)', ln))
                d['line'] = ln
                known.append(d)
    return known, fixed


def witness(prop, clause, tier, budget=None):
    if os.environ.get('VERIF_NO_WITNESS'):
        return dict(status='skipped')
    """Try to exhibit a concrete failing input on the real code for this property."""
    exe = os.path.join(VERIF, 'build', 'witness-target', 'release', 'wit')
    try:
        b = subprocess.run(['cargo', 'build', '--offline', '--release', '--quiet', '--bin', 'wit'],
                           cwd=os.path.join(VERIF, 'witness'), capture_output=True, text=True, timeout=600,
                           env=dict(os.environ, CARGO_TARGET_DIR=os.path.join(VERIF, 'build', 'witness-target'),
                                    CARGO_NET_OFFLINE='true', VERIF_REPO=REPO))
        if b.returncode != 0:
            return dict(status='witness-build-failed', detail=b.stderr[-1500:])
        if not budget and not os.environ.get('VERIF_WITNESS_BUDGET') and prop in SCENARIOS:
            # fallback / replay search: the thorough budget of the always-on leg (x10 in the thorough tier)
            budget = SCENARIOS[prop][2] * (1 if tier == 'quick' else 10)
        budget = str(budget) if budget else (os.environ.get('VERIF_WITNESS_BUDGET') or ('20000' if tier == 'quick' else '200000'))
        p = subprocess.run([exe, prop, budget], capture_output=True, text=True, timeout=900)
        out = p.stdout.strip().split('\n')[-1] if p.stdout.strip() else ''
        try:
            j = json.loads(out)
        except ValueError:
            if out.startswith('{"status":"found"'):
                # the finding is real even if its text is not well-formed JSON: keep it as raw text
                j = dict(status='found', property=prop, input=out[:1500], observed='(see input: raw witness output)', expected='')
            else:
                return dict(status='witness-error', detail=(p.stdout + p.stderr)[-1500:])
        if j.get('status') == 'found':
            # the search is seeded and deterministic: a genuine finding reproduces; anything else is discarded
            p2 = subprocess.run([exe, prop, budget], capture_output=True, text=True, timeout=900)
            out2 = p2.stdout.strip().split('\n')[-1] if p2.stdout.strip() else ''
            try:
                j2 = json.loads(out2)
            except ValueError:
                j2 = {}
            if j2.get('status') != 'found' or j2.get('input') != j.get('input'):
                return dict(status='not-reproducible', first=j, second=j2)
            j['reproduced'] = True
        return j
    except Exception as e:  # noqa
        return dict(status='witness-error', detail=str(e))


def canary_check(unit, seed, tier, repo):
    """assert(false) spliced at the entry of verified functions must be REPORTED by Verus."""
    from vf.gen import UnitGen
    ug = UnitGen(repo, os.path.join(VERIF, 'units'))
    g = ug.generate(unit)
    fns = sorted(f for f, i in g.fns.items() if i['mode'] == 'verify')
    lemmas = []
    for i, ln in enumerate(g.lines):
        m = re.match(r'\s*(?:pub )?proof fn (\w+)', ln)
        if m and g.map[i].get('kind') == 'framework' and not m.group(1).startswith('axiom_'):
            lemmas.append(m.group(1))
    cands = fns + ['lemma:' + l for l in lemmas]
    if not cands:
        return dict(unit=unit, planted=0, caught=0, ok=True, fns=[])
    if tier == 'thorough':
        chosen = cands
    else:
        chosen = [cands[seed % len(cands)]]
        if fns and lemmas:
            chosen = [fns[seed % len(fns)], 'lemma:' + lemmas[seed % len(lemmas)]]
    chosen_lemmas = set(c[6:] for c in chosen if c.startswith('lemma:'))

    def plant(gg):
        i = 0
        while i < len(gg.lines):
            m = re.match(r'\s*(?:pub )?proof fn (\w+)', gg.lines[i])
            if m and m.group(1) in chosen_lemmas and gg.map[i].get('kind') == 'framework':
                j = i
                while j < len(gg.lines) and gg.lines[j].strip() != '{':
                    j += 1
                if j < len(gg.lines):
                    gg.lines.insert(j + 1, '    assert(false); //@lemma:%s.canary' % m.group(1))
                    gg.map.insert(j + 1, dict(kind='clause', fn='lemma:' + m.group(1), clause='lemma:%s.canary' % m.group(1), tags=[], role='canary'))
                    i = j + 1
            i += 1
    r = unitrun.run_unit(unit, repo=repo, canary=set(c for c in chosen if not c.startswith('lemma:')), suffix='_canary', max_rounds=4,
                         rlimit=config.UNIT_RLIMIT.get(unit, 40), post=plant)
    caught = sorted(set(f['fn'] for f in r.failures if f['kind'] == 'canary'))
    chosen = [c for c in chosen if c not in (getattr(r, 'demoted', None) or {})]
    # the canary tests for contradictory preconditions on a tree where everything verifies; if the generated file
    # did not even compile (proof script that no longer fits, construct outside the subset) Verus never got to the
    # canaries: that is inconclusive, not vacuity -- and the main run reports the real problem
    inconclusive = any(u.startswith(('tool/compile error', 'round-trip', 'extraction')) for u in r.undecided)
    return dict(unit=unit, planted=len(chosen), caught=len(caught), ok=(set(caught) == set(chosen)) or inconclusive,
                fns=chosen, missed=sorted(set(chosen) - set(caught)), inconclusive=inconclusive)


ALL_UNITS = ['conn', 'lemmas', 'oneshot', 'request', 'client', 'response', 'router', 'headers', 'server']


def inventory():
    """Static inventory: which unit proves which function's contract (committed as units/inventory.json)."""
    from vf.gen import UnitGen
    proved = {}
    assumed = {}
    for u in ALL_UNITS:
        g = UnitGen(REPO, os.path.join(VERIF, 'units')).generate(u)
        for fid, info in g.fns.items():
            (proved if info['mode'] == 'verify' else assumed).setdefault(info['path'], {})
            (proved if info['mode'] == 'verify' else assumed)[info['path']][u] = info['contract_sha']
    if '--names' in sys.argv:
        names = {}
        for u in ALL_UNITS:
            g = UnitGen(REPO, os.path.join(VERIF, 'units')).generate(u)
            for fid, info in g.fns.items():
                names[info['path']] = info['binders']
        shapes = {'__items__': {}, '__sigs__': {}, '__fields__': {}}
        for u in ALL_UNITS:
            g = UnitGen(REPO, os.path.join(VERIF, 'units')).generate(u)
            for it in g.items:
                if re.search(r'\b(struct|enum)\b', it['src_text'].split('{')[0]):
                    if it.get('fields'):
                        shapes['__fields__'][it['id']] = it['fields']
                    shapes['__items__'][it['id']] = hashlib.sha256(' '.join(re.sub(r'//[^\n]*', '', it['src_text']).split()).encode()).hexdigest()[:16]
            for fid, info in g.fns.items():
                shapes['__sigs__'][info['path']] = info['sig_shape']
        names.update(shapes)
        with open(os.path.join(VERIF, 'units', 'names.json'), 'w') as f:
            json.dump(names, f, indent=1, sort_keys=True)
        print('wrote the binder-name baseline for %d functions' % len(names))
    inv = dict(proved=proved, assumed=assumed, assumed_only=sorted(
        p for p in assumed if not any(sha in proved.get(p, {}).values() for sha in assumed[p].values())))
    with open(os.path.join(VERIF, 'units', 'inventory.json'), 'w') as f:
        json.dump(inv, f, indent=1, sort_keys=True)
    print('functions under contract (verified): %d; assumed everywhere: %s' % (len(proved), inv['assumed_only']))
    return 0


_UNIT_CACHE = {}
_KANI_CACHE = {}
_CANARY_CACHE = {}


def run_unit_cached(u, repo, rlimit, threads):
    key = (u, repo)
    if key not in _UNIT_CACHE:
        _UNIT_CACHE[key] = unitrun.run_unit(u, repo, rlimit, threads)
    return _UNIT_CACHE[key]


def run_kani_cached(names, repo, tier):
    from vf import kani
    names = kani.expand(names)
    if tier == 'quick':
        names = [n for n in names if not kani.HARNESSES[n][4]]
    missing = [n for n in names if (n, repo, tier) not in _KANI_CACHE]
    if missing:
        for h in kani.run_harnesses(missing, repo, tier):
            _KANI_CACHE[(h['name'], repo, tier)] = h
    return [_KANI_CACHE[(n, repo, tier)] for n in names if (n, repo, tier) in _KANI_CACHE]


def main():
    if len(sys.argv) > 1 and sys.argv[1] == '--inventory':
        return inventory()
    if len(sys.argv) > 1 and sys.argv[1] == 'ALL':
        # every claimed property in one process: each unit / harness runs once and is shared
        rest = sys.argv[2:]
        from vf import kani
        repo = rest[rest.index('--repo') + 1] if '--repo' in rest else REPO
        tier = rest[rest.index('--tier') + 1] if '--tier' in rest else os.environ.get('VERIF_TIER', 'quick')
        allk = sorted(set(k for pc in config.PROPS.values() for k in pc.get('kani', [])))
        if '--no-kani' not in rest:
            run_kani_cached(allk, repo, tier)
        worst = 0
        for p in sorted(config.PROPS):
            sys.argv = [sys.argv[0], p] + rest
            rc = main()
            worst = max(worst, rc) if rc != 2 or worst == 0 else worst
        return worst
    ap = argparse.ArgumentParser()
    ap.add_argument('prop')
    ap.add_argument('--tier', default=os.environ.get('VERIF_TIER', 'quick'))
    ap.add_argument('--replay')
    ap.add_argument('--repo', default=REPO)
    ap.add_argument('--no-canary', action='store_true')
    ap.add_argument('--no-kani', action='store_true')
    ap.add_argument('--no-witness', action='store_true')
    args = ap.parse_args()
    if args.no_witness:
        os.environ['VERIF_NO_WITNESS'] = '1'
    prop = args.prop
    tier = args.tier if args.tier in ('quick', 'thorough') else 'quick'
    seed = int(os.environ.get('VERIF_SEED', '0') or 0)
    t0 = time.time()
    if prop not in config.PROPS:
        print('unknown or not-applicable property %s' % prop)
        return 2
    if args.replay:
        return replay(prop, args.replay, tier)
    pc = config.PROPS[prop]
    os.makedirs(EVID, exist_ok=True)
    os.makedirs(REPLAYS, exist_ok=True)
    repo = args.repo
    unitrun_repo = repo

    results = {}
    with cf.ThreadPoolExecutor(max_workers=4) as ex:
        futs = {ex.submit(run_unit_cached, u, unitrun_repo, config.UNIT_RLIMIT.get(u, 40),
                          max(2, 16 // max(1, len(pc['units'])))): u for u in pc['units']}
        kani_fut = None
        if pc.get('kani') and not args.no_kani:
            kani_fut = ex.submit(run_kani_cached, pc['kani'], repo, tier)
        for f in cf.as_completed(futs):
            results[futs[f]] = f.result()
        kani_res = kani_fut.result() if kani_fut else None

    stale_notes = []
    shaky = set()        # (unit, function) whose proof hints no longer fit the code (anchor gone / hint does not compile)
    undecided = []
    violations = []      # dict(clause, fn, tags, message, rendered, unit, site)
    other_failures = []  # failures not carrying this property
    trusted = []
    functions = []
    extraction = []
    clauses_mine = []
    obligations = 0
    discharged = 0
    solver_ms = {}
    dropped = []
    minimums = json.load(open(MINIMUMS)) if os.path.exists(MINIMUMS) else {}
    invp = os.path.join(VERIF, 'units', 'inventory.json')
    inv = json.load(open(invp)) if os.path.exists(invp) else {}
    namesp = os.path.join(VERIF, 'units', 'names.json')
    shape_base = json.load(open(namesp)) if os.path.exists(namesp) else {}
    for u in pc['units']:
        r = results[u]
        for msg in r.undecided:
            undecided.append('%s: %s' % (u, msg))
        if r.g is None:
            continue
        # a data-structure definition or a function signature that changed shape means the abstraction
        # function / the contract text may describe the OLD representation: failures there are ambiguous
        non_item_text = '\n'.join(ln for ln, mp in zip(r.g.lines, r.g.map) if mp.get('kind') != 'item')
        stale_items = [it['id'] for it in r.g.items
                       if it['id'] in shape_base.get('__items__', {}) and
                       re.search(r'\b%s\b' % re.escape(it['id'].split('.')[-1].split('::')[-1]), non_item_text) and
                       hashlib.sha256(' '.join(re.sub(r'//[^\n]*', '', it['src_text']).split()).encode()).hexdigest()[:16] != shape_base['__items__'][it['id']]]
        if stale_items:
            for fid in r.g.fns:
                shaky.add((u, fid))
            stale_notes.append('%s: definition of %s changed shape' % (u, ', '.join(stale_items)))
            # Contracts are stated over the abstract view; state the view does not mention is universally
            # quantified in every obligation, so obligations that still verify remain valid for the new
            # definition.  Only FAILURES are ambiguous (the view may be stale): the functions are shaky.
        for fid, info in r.g.fns.items():
            b = shape_base.get('__sigs__', {}).get(info['path'])
            if b and info.get('sig_shape') and b != info['sig_shape']:
                shaky.add((u, fid))
                stale_notes.append('%s: signature of %s changed' % (u, info['path']))
        for t in scan_trusted(r.g):
            m = re.search(r'\[([\w.]+)\]$', t)
            if m and m.group(1) in r.g.fns and r.g.fns[m.group(1)]['mode'] != 'verify':
                path = r.g.fns[m.group(1)]['path']
                sha = r.g.fns[m.group(1)]['contract_sha']
                where = [x for x, h in inv.get('proved', {}).get(path, {}).items() if x != u and h == sha]
                t += ' -- contract assumed in unit %s, %s' % (u, ('same contract PROVED in unit ' + ','.join(where)) if where else 'NOT proved anywhere (trusted)')
            elif t.startswith('external_body') and t.split()[1] in [i2['path'].split('::')[-1] for i2 in r.g.fns.values() if i2['mode'] != 'verify']:
                cand = [i2 for i2 in r.g.fns.values() if i2['mode'] != 'verify' and i2['path'].split('::')[-1] == t.split()[1]]
                path = cand[0]['path']
                sha = cand[0]['contract_sha']
                where = [x for x, h in inv.get('proved', {}).get(path, {}).items() if x != u and h == sha]
                t += ' [%s] -- contract assumed in unit %s, %s' % (path, u, ('same contract PROVED in unit ' + ','.join(where)) if where else 'NOT proved anywhere (trusted)')
            if t not in trusted:
                trusted.append(t)
        by_fn = {}
        for f in r.failures:
            by_fn.setdefault(f.get('fn'), []).append(f)
        for f in r.failures:
            if f['kind'] == 'framework':
                undecided.append('%s: a lemma of the framework itself failed: %s' % (u, f['message']))
                continue
            if f.get('role') == 'derived':
                sib = [x for x in by_fn.get(f.get('fn'), []) if x.get('role') != 'derived']
                if not sib:
                    undecided.append('%s: derived clause %s failed although every case clause holds (solver incompleteness)' % (u, f['clause']))
                continue
            f = dict(f, unit=u)
            if prop in (f.get('tags') or []):
                violations.append(f)
            else:
                other_failures.append(f)
        for d in r.dropped_hints:
            dropped.append(dict(d, unit=u))
            if d['message'].startswith('hint does not compile'):
                shaky.add((u, d.get('fn')))
        for cid in (getattr(r, 'lost_anchors', None) or []):
            if cid in r.g.clauses and r.g.clauses[cid]['kind'] == 'loop':
                continue   # the loop is gone: its invariant is moot, nothing that remains depends on it
            fn_of = r.g.clauses[cid]['fn'] if cid in r.g.clauses else cid.split('.rewrite.')[0].rsplit('.', 1)[0] if '.rewrite.' not in cid else cid.split('.rewrite.')[0]
            shaky.add((u, fn_of))
        for lf in getattr(r.g, 'lost_functions', []) or []:
            if lf['mode'] == 'verify' and prop in lf['tags']:
                undecided.append('%s: function %s is gone from the source; its obligations are moot, what it did is now checked only as part of its callers' % (u, lf['path']))
        for fid, why in (getattr(r, 'demoted', None) or {}).items():
            mine = [cid for cid, c in r.g.clauses.items() if c['fn'] == fid and prop in c['tags']]
            if prop == 'C03' and not mine:
                mine = ['%s.safety' % fid]   # bounds / overflow / unwrap / termination of the body were not checked
            if mine:
                undecided.append('%s: tool/compile error: the body of %s is outside the verifier\'s subset on this tree, so its obligations %s could not be checked (%s)'
                                 % (u, fid, sorted(mine)[:6], why[:300]))
            else:
                stale_notes.append('%s: %s left unverified (outside the subset); none of its clauses carries %s' % (u, fid, prop))
        for (fn, mode, ms, ok) in r.funcs:
            if mode in ('exec', 'proof'):
                obligations += 1
                discharged += 1 if ok else 0
                solver_ms['%s:%s' % (u, fn.split('::', 1)[-1])] = ms
        nver = len([1 for x in r.funcs if x[1] in ('exec', 'proof')])
        nver += len(getattr(r, 'demoted', None) or {}) + len([lf for lf in (getattr(r.g, 'lost_functions', []) or []) if lf['mode'] == 'verify'])
        if r.status != 'undecided' and nver < minimums.get(u, 1):
            undecided.append('%s: only %d functions were verified, committed minimum is %d (vacuity guard)' % (u, nver, minimums.get(u, 1)))
        for fid, info in r.g.fns.items():
            functions.append('%s %s (%s:%d, %s)' % (u, info['path'], info['file'], info['line'], 'under contract, verified' if info['mode'] == 'verify' else 'assumed contract'))
            extraction.append(dict(unit=u, fn=info['path'], file=info['file'], line=info['line'], sha256=info['sha256'], mode=info['mode'],
                                   rewrites=[x['id'] for x in info['rewrites']]))
        for cid, c in r.g.clauses.items():
            if prop in c['tags'] and c['kind'] in ('requires', 'ensures', 'loop', 'decreases', 'after', 'before', 'entry') and c['mode'] == 'verify':
                clauses_mine.append(dict(id='%s/%s' % (u, cid), role=c['role'], text=c['text'][:400]))

    # allow-list of trusted constructs
    allow = set(l.strip() for l in open(ALLOW) if l.strip() and not l.startswith('#')) if os.path.exists(ALLOW) else None
    if allow is not None:
        new = [t for t in trusted if t.split(' -- ')[0].split(' [')[0] not in set(a.split(' [')[0] for a in allow) and not t.startswith('kani:')]
        if new:
            undecided.append('trusted-base scan: constructs not on the committed allow-list: %s' % new)

    # canaries
    canaries = []
    if not args.no_canary and not undecided:
        with cf.ThreadPoolExecutor(max_workers=4) as ex:
            def canary_cached(u):
                if (u, repo, tier, seed) not in _CANARY_CACHE:
                    _CANARY_CACHE[(u, repo, tier, seed)] = canary_check(u, seed, tier, repo)
                return _CANARY_CACHE[(u, repo, tier, seed)]
            for c in ex.map(canary_cached, pc['units']):
                canaries.append(c)
                if not c['ok']:
                    undecided.append('%s: canary assert(false) NOT reported in %s -- verification is vacuous there' % (c['unit'], c.get('missed')))

    # Kani leg
    bounded = []
    if kani_res:
        for h in kani_res:
            bounded.append(dict(harness=h['name'], bound=h['bound'], complete=h['complete'], status=h['status'], checks=h.get('checks'), wall_s=h.get('wall')))
            if h['status'] == 'success':
                obligations += h.get('checks') or 1
                discharged += h.get('checks') or 1
                for t in h.get('trusted', []):
                    if t not in trusted:
                        trusted.append(t)
            elif h['status'] == 'failed':
                if prop in h['props']:
                    violations.append(dict(clause='kani.' + h['name'], fn=h['target'], tags=h['props'], message='Kani: ' + h.get('failed_checks', 'check failed'),
                                           rendered=h.get('output', '')[-3000:], unit='kani', site=h['target'], kani=h))
                    obligations += h.get('checks') or 1
                    discharged += (h.get('checks') or 1) - max(1, h.get('failed') or 1)
            else:
                if tier == 'thorough' and h.get('optional'):
                    bounded[-1]['note'] = 'bounded check not completed'
                else:
                    undecided.append('kani %s: %s' % (h['name'], h['status']))

    # Bounded stand-in for the part of the server that no contract reaches (HttpServer::requests /
    # handle_new_connection: epoll, accept, closure chains): fixed client/application histories driven through the
    # REAL server on every run.  Labelled bounded, never counted as proved; a finding is a concrete, reproduced history.
    scen_wit = None
    if prop in SCENARIOS and not os.environ.get('VERIF_NO_WITNESS'):
        scen_wit = witness(SCENARIOS[prop][0], 'scenario', tier, budget=SCENARIOS[prop][1 if tier == 'quick' else 2])
        st = scen_wit.get('status')
        bounded.append(dict(harness='wit ' + SCENARIOS[prop][0], bound=SCENARIOS[prop][3] + ' (budget %d, seeded)' % SCENARIOS[prop][1 if tier == 'quick' else 2], complete=False,
                            status='success' if st == 'not-found' else ('failed' if st == 'found' else str(st)), checks=scen_wit.get('tried'), wall_s=None))
        if st == 'found':
            violations.append(dict(clause='scenario.' + SCENARIOS[prop][0], fn='(whole crate, driven through its public API)', tags=[prop],
                                   message='bounded search on the real code: input %s; observed %s; expected %s' % (str(scen_wit.get('input'))[:300], str(scen_wit.get('observed'))[:300], str(scen_wit.get('expected'))[:300]),
                                   rendered=json.dumps(scen_wit, indent=1), unit='witness', site='bounded search', kind='scenario'))
            obligations += 1
        elif st == 'not-found':
            obligations += 1
            discharged += 1
        else:
            undecided.append('bounded search: %s' % str(scen_wit)[:300])

    # An obligation that fails in a function whose proof hints no longer fit the code (renamed locals,
    # restructured statements) proves nothing: the proof script, not the property, may be what broke.
    def secondary_for_prop(v):
        # the clause is PRIMARY for another property and only used by this one's proof (tags after ';'):
        # its failure shows that the proof of this property no longer goes through, not that the property is broken
        g_ = results[v['unit']].g if v.get('unit') in results else None
        c_ = g_.clauses.get(v['clause']) if g_ else None
        return bool(c_ and prop in c_.get('secondary', []))
    is_amb = lambda v: (v.get('unit'), v.get('fn')) in shaky or secondary_for_prop(v)
    ambiguous = [v for v in violations if is_amb(v)]
    violations = [v for v in violations if not is_amb(v)]
    amb_wit = scen_wit if (scen_wit and scen_wit.get('status') == 'found') else None
    if ambiguous and amb_wit is not None and all(v.get('kind') == 'scenario' for v in violations):
        # the bounded leg exhibited a concrete failing input for this property: the failed obligations are reported with it
        violations = ambiguous + violations
        ambiguous = []
    if ambiguous and not violations:
        amb_wit = witness(prop, ambiguous[0]['clause'], tier) if prop in WITNESS_FALLBACK else None
        if amb_wit and amb_wit.get('status') == 'found':
            violations = ambiguous      # confirmed on the real code by a concrete failing input
        elif all(secondary_for_prop(v) and (v.get('unit'), v.get('fn')) not in shaky for v in ambiguous):
            undecided.append('obligations %s fail; they carry another property and are only used by the proof of %s; the bounded witness search for %s found no failing input, so %s is neither proved nor shown broken on this tree: undecided, not an alarm'
                             % (sorted(set(v['clause'] for v in ambiguous)), prop, prop, prop))
        else:
            undecided.append('obligations %s fail, but the proof script of %s no longer fits the code (lost anchors / renamed locals / %s) and the bounded witness search found no failing input: undecided, not an alarm'
                             % (sorted(set(v['clause'] for v in ambiguous)), sorted(set(str(v.get('fn')) for v in ambiguous)), '; '.join(stale_notes) or 'no shape change'))

    wit = None
    known, fixed = load_known()
    out_lines = []
    real = []
    # one report per clause
    seen = set()
    for v in violations:
        key = (v['clause'], v.get('site'))
        if key in seen:
            continue
        seen.add(key)
        k = [x for x in known if x.get('property') == prop and x.get('clause') == v['clause'] and x.get('site', '*') in ('*', str(v.get('site')))]
        if k:
            out_lines.append('KNOWN-FINDING: property=%s %s' % (prop, k[0]['line'].split(' ', 1)[1]))
            continue
        real.append(v)

    rc = 0
    replay_paths = []
    if real:
        rc = 1
        wit = amb_wit if amb_wit is not None else witness(prop, real[0]['clause'], tier)
        for v in real:
            name = re.sub(r'[^\w.\-]', '_', '%s-%s' % (prop, v['clause']))
            path = os.path.join(REPLAYS, name + '.json')
            clause_info = None
            for u in pc['units']:
                if results[u].g and v['clause'] in results[u].g.clauses:
                    clause_info = results[u].g.clauses[v['clause']]
            rec = dict(property=prop, failed_obligation=v['clause'], function=v.get('fn'), unit=v.get('unit'),
                       exit_or_call_site=v.get('site'), verifier_message=v['message'], verifier_output=v.get('rendered', ''),
                       clause_text=clause_info['text'] if clause_info else None, clause_kind=clause_info['kind'] if clause_info else v.get('kind'),
                       repo_tree=repo_tree_id(), witness=wit, tier=tier,
                       dropped_hints=[d['clause'] for d in dropped if d.get('fn') == v.get('fn')],
                       replay_cmd='./check %s --replay %s' % (prop, path))
            if v.get('kani'):
                rec['kani_counterexample'] = v['kani'].get('counterexample')
            with open(path, 'w') as f:
                json.dump(rec, f, indent=1)
            replay_paths.append(path)
            suffix = '' if (wit and wit.get('status') == 'found') or rec.get('kani_counterexample') else ' no-failing-input-found'
            out_lines.append('VIOLATION property=%s replay=%s obligation=%s function=%s%s' % (prop, path, v['clause'], v.get('fn'), suffix))
    elif undecided:
        rc = 2
        # The verifier could not decide because the code left the shape the contracts are written for
        # (a function or anchor is gone, a construct outside the Verus subset appeared, a new loop has
        # no invariant).  That is not an alarm.  But the replay search can still settle it in one
        # direction: a concrete input on which the REAL code breaks the property is a violation
        # whatever the verifier says.  Only the deterministic searches are used for this.
        shape = [u for u in undecided if any(k in u for k in ('extraction:', 'tool/compile error', 'round-trip:'))]
        if shape and prop in WITNESS_FALLBACK:
            wit = witness(prop, 'undecided', tier)
            if wit and wit.get('status') == 'found':
                name = '%s-undecided-by-verifier' % prop
                path = os.path.join(REPLAYS, name + '.json')
                with open(path, 'w') as f:
                    json.dump(dict(property=prop, failed_obligation=None, verifier='UNDECIDED: ' + ' | '.join(u[:400] for u in undecided),
                                   note='no obligation could be checked on this tree; the violation is established by the concrete failing input below, found by the bounded witness search on the real code',
                                   witness=wit, repo_tree=repo_tree_id(), tier=tier), f, indent=1)
                out_lines.append('VIOLATION property=%s replay=%s obligation=undecided-by-verifier failing-input-found-by-bounded-search' % (prop, path))
                real.append(dict(clause='undecided-by-verifier'))
                rc = 1

    # "exit 0 if the property held on everything explored": when the ONLY reason for not deciding is that part of the
    # proof could not be carried out on this tree -- a function body left the verifier's subset (demoted), or
    # obligations fail in a function whose proof script no longer fits the restructured code -- and the bounded
    # search on the real code (run with the larger fallback budget) found no failing input, the verdict is OK
    # *partial*: everything that could be explored held.  The parts that could not are printed (PARTIAL lines) and
    # recorded in the evidence (`undecided`, discharged < obligations).  Tool failures, resource limits, lost
    # functions, vacuity and trusted-base findings stay exit 2.
    partial = False
    if rc == 2 and undecided:
        soft = [u for u in undecided if "is outside the verifier's subset on this tree" in u or u.startswith('obligations [')
                or (u.startswith('kani ') and 'harness does not compile against this tree' in u)
                or 'is gone from the source; its obligations are moot' in u]
        fb = wit if wit is not None else amb_wit
        searched = (fb is not None and fb.get('status') == 'not-found') or (scen_wit is not None and scen_wit.get('status') == 'not-found' and prop in SCENARIOS)
        if len(soft) == len(undecided) and searched and not os.environ.get('VERIF_STRICT_UNDECIDED'):
            rc = 0
            partial = True
            obligations += len(soft)   # what could not be established stays visible: discharged < obligations

    for ln in out_lines:
        print(ln)
    if rc == 2:
        for u in undecided:
            print('UNDECIDED: ' + u[:1500])
    elif rc == 0:
        if partial:
            for u in undecided:
                print('PARTIAL: ' + u[:1500])
        print('OK property=%s tier=%s obligations=%d discharged=%d units=%s wall=%.1fs%s' % (prop, tier, obligations, discharged, ','.join(pc['units']), time.time() - t0,
              ' partial=%d (not established on this tree; bounded search found no failing input)' % len(undecided) if partial else ''))
    if other_failures:
        for f in other_failures:
            print('note: obligation %s (tags %s) failed; it does not carry %s' % (f['clause'], ','.join(f.get('tags') or []), prop))

    checker_cmd = '; '.join(sorted(set(r.runs[-1]['cmd'] for r in results.values() if r.runs)))
    if kani_res:
        checker_cmd += '; ' + '; '.join(sorted(set(h['cmd'] for h in kani_res if h.get('cmd'))))
    ev = dict(
        property_id=prop, tier=tier, seed=seed, level='proof',
        coverage=dict(
            obligations=max(obligations, 1), discharged=discharged,
            checker_cmd=checker_cmd or 'none',
            trusted_base=trusted,
            explanation='obligations = Verus per-function verification conditions (exec+proof functions of the units, from --output-json function-breakdown) + Kani checks; measured on this run',
            functions_under_contract=functions,
            clauses_carrying_property=len(clauses_mine),
            samples=clauses_mine[:6],
            backends=['verus 0.2026.09.13 + z3 (bundled)'] + (['kani 0.68.0 + cbmc 6.11'] if kani_res else []),
            solver_time_ms=solver_ms,
            bounded=bounded,
            extraction=extraction,
            rewrites=sorted(set(x for e in extraction for x in e['rewrites'])),
            canaries=canaries,
            dropped_hints=[d['clause'] for d in dropped],
            undecided=undecided,
            units={u: dict(status=results[u].status, wall_s=round(results[u].wall, 2)) for u in pc['units']},
            repo_tree=repo_tree_id(),
            fixed_findings=fixed,
            hypotheses=pc.get('hypotheses', []),
            exhaustive=False,
        ),
        assumptions=pc.get('hypotheses', []) + trusted + ['machine arithmetic is NOT idealised: Verus checks every + - as on the exec types',
                               'Z3, Verus VC generation, rustc front end' + (', CBMC and Kani MIR translation' if kani_res else '')],
        wall_s=round(time.time() - t0, 2),
        violations=len(real),
    )
    with open(os.path.join(EVID, prop + '.json'), 'w') as f:
        json.dump(ev, f, indent=1)
    return rc


def replay(prop, path, tier):
    rec = json.load(open(path))
    print('replaying failed obligation %s of %s on the current tree' % (rec.get('failed_obligation'), prop))
    sys.argv = [sys.argv[0], prop, '--tier', tier]
    return main()


if __name__ == '__main__':
    sys.exit(main())
