"""Minimal Rust source scanner: comment/string masking, brace matching, item and
function location.  Purely syntactic; used to copy item text verbatim out of /repo.

Nothing here interprets Rust semantics.  If something cannot be located the caller
gets an ExtractError, which every check turns into exit 2 (undecided)."""
import re


class ExtractError(Exception):
    pass


def mask(text):
    """Return text of identical length where the *contents* of comments, string
    literals and char literals are replaced by spaces (newlines kept), so that
    bracket matching and keyword search can ignore them."""
    out = list(text)
    i, n = 0, len(text)

    def blank(a, b):
        for k in range(a, b):
            if out[k] != '\n':
                out[k] = ' '

    while i < n:
        c = text[i]
        if c == '/' and i + 1 < n and text[i + 1] == '/':
            j = text.find('\n', i)
            if j < 0:
                j = n
            blank(i, j)
            i = j
        elif c == '/' and i + 1 < n and text[i + 1] == '*':
            depth, j = 1, i + 2
            while j < n and depth:
                if text.startswith('/*', j):
                    depth += 1
                    j += 2
                elif text.startswith('*/', j):
                    depth -= 1
                    j += 2
                else:
                    j += 1
            blank(i, j)
            i = j
        elif c == '"' or (c in 'br' and re.match(r'(b?r#*"|b")', text[i:i + 8]) and
                          (i == 0 or not (text[i - 1].isalnum() or text[i - 1] == '_'))):
            m = re.match(r'(b?)(r(#*))?"', text[i:])
            if not m:
                i += 1
                continue
            start = i + m.end()
            if m.group(2):  # raw string
                close = '"' + (m.group(3) or '')
                j = text.find(close, start)
                if j < 0:
                    raise ExtractError('unterminated raw string')
                blank(start, j)
                i = j + len(close)
            else:
                j = start
                while j < n and text[j] != '"':
                    j += 2 if text[j] == '\\' else 1
                blank(start, j)
                i = j + 1
        elif c == "'" or (c == 'b' and i + 1 < n and text[i + 1] == "'" and
                          (i == 0 or not (text[i - 1].isalnum() or text[i - 1] == '_'))):
            s = i + (2 if c == 'b' else 1)
            # char literal or lifetime?
            m = re.match(r"(\\(x[0-9a-fA-F]{2}|u\{[0-9a-fA-F_]+\}|.)|[^\\'\n])'", text[s:])
            if m:
                blank(s, s + m.end() - 1)
                i = s + m.end()
            else:
                i = s  # lifetime
        else:
            i += 1
    return ''.join(out)


_OPEN = {'(': ')', '[': ']', '{': '}'}
_CLOSE = {')', ']', '}'}


def match_close(masked, pos):
    """pos points at an opening bracket in masked text; return index of its match."""
    stack = []
    i = pos
    n = len(masked)
    while i < n:
        c = masked[i]
        if c in _OPEN:
            stack.append(_OPEN[c])
        elif c in _CLOSE:
            if not stack or stack[-1] != c:
                raise ExtractError('unbalanced bracket at offset %d' % i)
            stack.pop()
            if not stack:
                return i
        i += 1
    raise ExtractError('unterminated bracket at offset %d' % pos)


_ITEM_RE = re.compile(
    r'^[ \t]*(?P<vis>pub(?:\s*\([^)]*\))?\s+)?(?P<q>(?:(?:unsafe|const|async|default|extern\s+"[^"]*")\s+)*)'
    r'(?P<kw>fn|struct|enum|union|const|static|type|impl|mod|trait|use|macro_rules!)\b', re.M)


class Item:
    def __init__(self, kind, name, start, head_start, body_open, end, header):
        self.kind = kind          # fn|struct|enum|const|static|type|impl|mod|trait
        self.name = name          # identifier (for impl: self type name)
        self.start = start        # offset of first leading attribute / doc comment line
        self.head_start = head_start  # offset of the line holding the keyword
        self.body_open = body_open    # offset of '{' or None
        self.end = end            # offset one past the item's last character
        self.header = header      # masked header text (keyword .. '{' or ';')
        self.trait_name = None


def scan_items(text, masked, lo, hi):
    """List the items that start at bracket depth 0 inside [lo, hi)."""
    items = []
    pos = lo
    while True:
        m = _ITEM_RE.search(masked, pos, hi)
        if not m:
            break
        kw = m.group('kw')
        # make sure we are at depth 0 relative to lo: count brackets between pos and m.start()
        depth = 0
        for ch in masked[pos:m.start()]:
            if ch in _OPEN:
                depth += 1
            elif ch in _CLOSE:
                depth -= 1
        if depth != 0:
            # inside a nested block we failed to skip; skip this line
            pos = m.end()
            continue
        # `const` qualifier followed by fn is handled by regex (q group); a bare `const NAME`
        i = m.end()
        # find end of header: first '{' or ';' at bracket depth 0 (parens/brackets/angle irrelevant for braces)
        j = i
        d = 0
        body_open = None
        while j < hi:
            ch = masked[j]
            if ch in '([':
                j = match_close(masked, j) + 1
                continue
            if ch == '{':
                body_open = j
                break
            if ch == ';':
                break
            j += 1
        if j >= hi:
            raise ExtractError('item header without end near offset %d' % m.start())
        if kw in ('struct', 'enum', 'union', 'fn', 'impl', 'mod', 'trait') and body_open is not None:
            end = match_close(masked, body_open) + 1
        elif body_open is not None:
            # const X: T = Foo { .. };  -> continue to ';'
            k = match_close(masked, body_open) + 1
            while k < hi and masked[k] != ';':
                if masked[k] in _OPEN:
                    k = match_close(masked, k)
                k += 1
            end = k + 1
            body_open = None
        else:
            end = j + 1
        header = masked[m.start('kw'):(body_open if body_open is not None else j)]
        name = None
        trait_name = None
        if kw == 'impl':
            h = header[4:]
            # strip leading generics
            h = h.lstrip()
            if h.startswith('<'):
                dd = 0
                for k, ch in enumerate(h):
                    if ch == '<':
                        dd += 1
                    elif ch == '>':
                        dd -= 1
                        if dd == 0:
                            h = h[k + 1:]
                            break
            h = h.split(' where ')[0].strip()
            mm = re.match(r'(?:(?P<tr>[\w:]+)(?:<[^{}]*>)?\s+for\s+)?(?P<ty>[\w:]+)', h)
            if mm:
                name = mm.group('ty').split('::')[-1]
                trait_name = mm.group('tr').split('::')[-1] if mm.group('tr') else None
        elif kw == 'use' or kw == 'macro_rules!':
            name = None
        else:
            mm = re.match(r'\s*(?:mut\s+)?([A-Za-z_]\w*)', masked[m.end():])
            name = mm.group(1) if mm else None
        # leading attributes and doc comments
        head_start = text.rfind('\n', 0, m.start() + 1) + 1 if m.start() > 0 else 0
        if masked[m.start()] == '\n':
            head_start = m.start() + 1
        start = head_start
        while start > lo:
            prev_end = start - 1
            prev_start = text.rfind('\n', 0, prev_end) + 1
            line = text[prev_start:prev_end].strip()
            if line.startswith('///') or line.startswith('#[') or line.startswith('#!['):
                start = prev_start
            else:
                break
        it = Item(kw, name, start, head_start, body_open, end, header)
        it.trait_name = trait_name
        items.append(it)
        pos = end
    return items


class RustFile:
    def __init__(self, path, text=None):
        self.path = path
        if text is None:
            with open(path, encoding='utf-8') as f:
                text = f.read()
        self.text = text
        self.masked = mask(text)
        self._top = None

    def line_of(self, off):
        return self.text.count('\n', 0, off) + 1

    def top_items(self):
        if self._top is None:
            self._top = scan_items(self.text, self.masked, 0, len(self.text))
        return self._top

    def children(self, item):
        if item.body_open is None:
            return []
        return scan_items(self.text, self.masked, item.body_open + 1, item.end - 1)

    def find(self, kind, path):
        """path: 'Name', 'mod::Name', 'Type::method', '<Trait for Type>::method'."""
        parts = path.split('::')
        scope = self.top_items()
        # descend through modules (skipping #[cfg(test)] modules)
        while len(parts) > 1:
            mods = [it for it in scope if it.kind == 'mod' and it.name == parts[0]
                    and 'cfg(test)' not in self.text[it.start:it.head_start]]
            if not mods:
                break
            scope = self.children(mods[0])
            parts = parts[1:]
        if kind == 'fn' and len(parts) == 2:
            ty, fname = parts
            trait = None
            mm = re.match(r'<(\w+)(?: for |_for_)(\w+)>$', ty)
            if mm:
                trait, ty = mm.group(1), mm.group(2)
            cands = []
            for it in scope:
                if it.kind == 'impl' and it.name == ty and (trait is None or it.trait_name == trait):
                    for ch in self.children(it):
                        if ch.kind == 'fn' and ch.name == fname:
                            cands.append((it, ch))
            if not cands:
                raise ExtractError('%s: fn %s not found' % (self.path, path))
            if trait is None:
                inh = [c for c in cands if c[0].trait_name is None]
                if inh:
                    cands = inh
            if len(cands) > 1:
                raise ExtractError('%s: fn %s is ambiguous (%d candidates)' % (self.path, path, len(cands)))
            return cands[0][1]
        if kind == 'impl':
            mm = re.match(r'<(\w+)(?: for |_for_)(\w+)>$', parts[-1])
            if mm:
                cands = [it for it in scope if it.kind == 'impl' and it.name == mm.group(2) and it.trait_name == mm.group(1)]
            else:
                cands = [it for it in scope if it.kind == 'impl' and it.name == parts[-1] and it.trait_name is None]
            if len(cands) != 1:
                raise ExtractError('%s: impl %s: %d candidates' % (self.path, path, len(cands)))
            return cands[0]
        if len(parts) != 1:
            raise ExtractError('%s: cannot resolve %s' % (self.path, path))
        cands = [it for it in scope if it.kind == kind and it.name == parts[0]
                 and 'cfg(test)' not in self.text[it.start:it.head_start]]
        if not cands:
            raise ExtractError('%s: %s %s not found' % (self.path, kind, path))
        if len(cands) > 1:
            raise ExtractError('%s: %s %s is ambiguous' % (self.path, kind, path))
        return cands[0]


_TOKEN_RE = re.compile(r'''
    //[^\n]* | /\*.*?\*/ |
    b?r\#*".*?"\#* | b?"(?:\\.|[^"\\])*" | b?'(?:\\.|[^'\\])+?' |
    [A-Za-z_]\w* | \d[\w.]* | \S
''', re.X | re.S)


def tokens(text):
    """Whitespace-insensitive token list (comments are tokens, with inner
    whitespace normalised)."""
    out = []
    for t in _TOKEN_RE.findall(text):
        if t.startswith('//') or t.startswith('/*'):
            t = ' '.join(t.split())
        out.append(t)
    return out


class FnParts:
    """A function's text split into signature / body, with loop headers located."""

    def __init__(self, rf, item):
        self.rf = rf
        self.item = item
        t, m = rf.text, rf.masked
        self.text = t[item.head_start:item.end]
        self.masked = m[item.head_start:item.end]
        if item.body_open is None:
            raise ExtractError('fn %s has no body' % item.name)
        self.body_open = item.body_open - item.head_start
        self.src_line = rf.line_of(item.head_start)
        self.attrs = t[item.start:item.head_start]
