"""Run Verus on a generated unit and attribute every diagnostic to a clause."""
import json
import os
import re
import subprocess
import time

SEMANTIC = [
    'postcondition not satisfied',
    'precondition not satisfied',
    'precondition not met',
    'invariant not satisfied',
    'assertion failed',
    'possible arithmetic underflow/overflow',
    'possible division by zero',
    'decreases not satisfied',
    'could not prove termination',
    'possible bit shift underflow/overflow',
    'recommendation not met',
    'cannot show invariant holds',
    'unreachable',
    'index out of bounds',
    'might panic',
]
UNDECIDED = ['rlimit', 'Resource limit', 'timed out', 'internal error', 'canceled']


def run_verus(path, rlimit=30, threads=8, timeout=900, extra=None):
    cmd = ['verus', os.path.basename(path), '--multiple-errors', '25', '--output-json', '--time',
           '--rlimit', str(rlimit), '--num-threads', str(threads)] + (extra or []) + ['--', '--error-format=json']
    t0 = time.time()
    try:
        p = subprocess.run(cmd, cwd=os.path.dirname(path), capture_output=True, text=True, timeout=timeout)
        rc, out, err = p.returncode, p.stdout, p.stderr
    except subprocess.TimeoutExpired as e:
        rc, out, err = -9, (e.stdout or b'').decode() if isinstance(e.stdout, bytes) else (e.stdout or ''), 'TIMEOUT'
    wall = time.time() - t0
    diags = []
    for ln in err.split('\n'):
        ln = ln.strip()
        if ln.startswith('{'):
            try:
                d = json.loads(ln)
            except ValueError:
                continue
            if d.get('$message_type') == 'diagnostic':
                diags.append(d)
    res = None
    try:
        res = json.loads(out[out.index('{'):]) if '{' in out else None
    except ValueError:
        res = None
    return dict(cmd=' '.join(cmd), rc=rc, diags=diags, result=res, wall=wall, stderr=err if not diags and rc != 0 else '')


def classify(diags, g):
    """Map diagnostics to failures.  Returns (failures, undecided_reasons).
    failure = dict(kind='clause'|'hint'|'safety'|'canary'|'framework', clause, fn, tags, message, rendered, role)"""
    failures = []
    undecided = []
    for d in diags:
        if d.get('level') not in ('error',):
            continue
        msg = d.get('message', '')
        if msg.startswith('aborting due to'):
            continue
        if any(u in msg for u in UNDECIDED):
            fnname = ''
            for sp in d.get('spans', []):
                ln = sp['line_start'] - 1
                if 0 <= ln < len(g.map):
                    fnname = g.map[ln].get('fn') or fnname
            undecided.append('%s [%s]' % (msg, fnname))
            continue
        if not any(s in msg for s in SEMANTIC):
            # a compile error located on a spliced HINT line (e.g. the hint names a local that was
            # renamed) is treated like a failing hint: the runner drops the hint and tries again
            hint = None
            for sp in d.get('spans', []):
                ln = sp['line_start'] - 1
                if 0 <= ln < len(g.map) and g.map[ln].get('kind') == 'clause' and sp.get('is_primary') and (
                        g.map[ln].get('role') == 'hint'
                        or (g.clauses.get(g.map[ln].get('clause'), {}).get('kind') == 'loop')):
                    # a proof hint -- or a loop invariant, which is proof script too: when the loop it was written for has
                    # been restructured (`for` -> `while let`), it may name things that no longer exist
                    hint = g.map[ln]
            if hint is not None:
                failures.append(dict(kind='hint', clause=hint['clause'], tags=list(hint.get('tags') or []), role='hint', fn=hint.get('fn'),
                                     message='hint does not compile: ' + msg, rendered=d.get('rendered', '')))
                continue
            host = None
            for sp in d.get('spans', []):
                ln = sp['line_start'] - 1
                if 0 <= ln < len(g.map) and g.map[ln].get('kind') == 'verbatim' and sp.get('is_primary'):
                    host = g.map[ln].get('fn')
            undecided.append('tool/compile error: %s%s' % ((d.get('rendered') or msg)[:600], (' [outside-subset-in=%s]' % host) if host else ''))
            continue
        spans = d.get('spans', [])
        entries = []
        for sp in spans:
            ln = sp['line_start'] - 1
            if 0 <= ln < len(g.map):
                e = dict(g.map[ln])
                e['primary'] = sp.get('is_primary', False)
                e['label'] = sp.get('label') or ''
                e['line'] = ln + 1
                entries.append(e)
        # also look at children spans (notes)
        clause_e = [e for e in entries if e.get('kind') == 'clause' and e.get('role') != 'attr']
        verb_e = [e for e in entries if e.get('kind') == 'verbatim']
        f = dict(message=msg, rendered=d.get('rendered', ''))
        # which function is being verified? the one holding the exit / call site / assertion
        host = None
        for e in entries:
            if e.get('kind') in ('verbatim', 'clause') and e.get('fn'):
                if 'at this exit' in e['label'] or 'call' in e['label'] or e['primary']:
                    host = e['fn']
        if host is None:
            for e in entries:
                if e.get('fn'):
                    host = e['fn']
        f['fn'] = host
        if clause_e:
            # prefer the clause that is labelled as failed
            pick = None
            for e in clause_e:
                if 'failed' in e['label']:
                    pick = e
            if pick is None:
                pick = [e for e in clause_e if e['primary']][0] if [e for e in clause_e if e['primary']] else clause_e[0]
            role = pick.get('role', 'clause')
            # a hint line hosting a lemma call whose precondition fails is a hint failure
            hint_e = [e for e in clause_e if e.get('role') == 'hint']
            can_e = [e for e in clause_e if e.get('role') == 'canary']
            if can_e:
                pick, role = can_e[0], 'canary'
            elif hint_e and role != 'clause':
                pick, role = hint_e[0], 'hint'
            elif hint_e and 'precondition' in msg:
                # requires clause of a contracted fn/lemma, called from a hint
                pick, role = hint_e[0], 'hint'
            f.update(kind=role if role in ('hint', 'canary') else 'clause', clause=pick['clause'],
                     tags=list(pick.get('tags') or []), role=role)
            # for a precondition failure, the blamed function is the caller
            if 'precondition' in msg:
                callers = [e for e in entries if 'failed' not in e['label'] and e.get('fn')]
                if callers:
                    f['fn'] = callers[0]['fn']
                    f['site'] = callers[0].get('src') or callers[0].get('clause')
            exits = [e for e in entries if 'at this exit' in e['label']]
            if exits:
                f['site'] = exits[0].get('src')
        elif verb_e:
            e = [x for x in verb_e if x['primary']] or verb_e
            e = e[0]
            f.update(kind='safety', clause='%s.safety' % e['fn'], tags=['C03'], role='safety', site=e.get('src'))
            f['fn'] = e['fn']
        else:
            f.update(kind='framework', clause='framework', tags=[], role='framework')
        failures.append(f)
    return failures, undecided


def function_results(res):
    """[(function, mode, ms, success)] from --output-json."""
    out = []
    if not res:
        return out
    try:
        for m in res['times-ms']['smt']['smt-run-module-times']:
            for fb in m.get('function-breakdown', []):
                out.append((fb['function'], fb.get('mode:') or fb.get('mode'), fb.get('time', 0), fb.get('success', False)))
    except (KeyError, TypeError):
        pass
    return out
