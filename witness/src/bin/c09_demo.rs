use micro_http::{HttpServer, Response, StatusCode, Version, Body};
use std::io::{Write, Read};
use std::net::Shutdown;
use std::os::unix::net::UnixStream;
use std::os::unix::io::AsRawFd;
fn ready(server: &HttpServer) -> bool {
    let mut p = libc::pollfd { fd: server.epoll().as_raw_fd(), events: libc::POLLIN, revents: 0 };
    unsafe { libc::poll(&mut p, 1, 200) > 0 }
}
fn main() {
    let path = "/tmp/witness_c09.sock";
    let _ = std::fs::remove_file(path);
    let mut server = HttpServer::new(path).unwrap();
    server.start_server().unwrap();
    let mut bad = UnixStream::connect(path).unwrap();
    let mut good = UnixStream::connect(path).unwrap();
    println!("accept: {:?}", server.requests().map(|v| v.len()));
    if ready(&server) { println!("accept2: {:?}", server.requests().map(|v| v.len())); }
    bad.write_all(b"GET /a HTTP/1.1\r\n\r\nGET /b HTTP/1.1\r\n\r\n").unwrap();
    let mut reqs = vec![];
    while ready(&server) && reqs.len() < 2 { reqs.extend(server.requests().unwrap()); }
    println!("yielded {} from bad", reqs.len());
    bad.shutdown(Shutdown::Read).unwrap();
    // respond to the first only
    let r1 = reqs.remove(0);
    let mut resp = Response::new(Version::Http11, StatusCode::OK); resp.set_body(Body::new("x".to_string()));
    let mut o = Some(resp); server.respond(r1.process(|_| o.take().unwrap())).unwrap();
    for i in 0..4 {
        if !ready(&server) { println!("poll {}: not ready", i); break; }
        println!("poll {}: {:?}", i, server.requests().map(|v| v.len()).map_err(|e| format!("{}", e)));
    }
    // now the good client sends a request; does it get served?
    good.write_all(b"GET /good HTTP/1.1\r\n\r\n").unwrap();
    for i in 0..4 {
        if !ready(&server) { println!("g poll {}: not ready", i); break; }
        println!("g poll {}: {:?}", i, server.requests().map(|v| v.iter().map(|r| r.request.uri().get_abs_path().to_string()).collect::<Vec<_>>()).map_err(|e| format!("{}", e)));
    }
    // respond to the second from bad
    let r2 = reqs.remove(0);
    server.respond(r2.process(|_| Response::new(Version::Http11, StatusCode::OK))).unwrap();
    for i in 0..4 {
        if !ready(&server) { println!("after poll {}: not ready", i); break; }
        println!("after poll {}: {:?}", i, server.requests().map(|v| v.len()).map_err(|e| format!("{}", e)));
    }
    let _ = good.set_nonblocking(true); let mut b=[0u8;64]; println!("good read: {:?}", good.read(&mut b));
}
