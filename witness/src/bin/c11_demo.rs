use micro_http::HttpConnection;
use std::io::Write;
use std::os::unix::net::UnixStream;
fn feed(pieces: &[&[u8]]) {
    let (mut tx, rx) = UnixStream::pair().unwrap();
    rx.set_nonblocking(true).unwrap();
    let mut c = HttpConnection::new(rx);
    for p in pieces {
        tx.write_all(p).unwrap();
        let r = c.try_read();
        print!("  read {:?} -> {:?};", String::from_utf8_lossy(p), r.as_ref().map_err(|e| format!("{}", e)));
        while let Some(req) = c.pop_parsed_request() {
            print!(" DELIVERED {:?} {:?} body={:?}", req.method(), req.uri().get_abs_path(), req.body.as_ref().map(|b| String::from_utf8_lossy(b.raw()).to_string()));
        }
        println!();
    }
}
fn main() {
    println!("A: header error then blank line then valid request");
    feed(&[b"GET /rejected HTTP/1.1\r\nContent-Length: abc\r\n", b"\r\n", b"GET /ok HTTP/1.1\r\n\r\n"]);
    println!("B: header error, then valid request");
    feed(&[b"GET /rejected HTTP/1.1\r\nContent-Length: abc\r\n\r\n", b"GET /ok HTTP/1.1\r\n\r\n", b"\r\n"]);
    println!("C: partial request line buffered, then error, then valid");
    feed(&[b"GET /x HTT", b"Q/1.1\r\n\r\n", b"GET /ok HTTP/1.1\r\n\r\n"]);
    println!("D: fresh valid for reference");
    feed(&[b"GET /ok HTTP/1.1\r\n\r\n"]);
    println!("E: body overflow? size limit then valid");
    feed(&[b"PUT /big HTTP/1.1\r\nContent-Length: 99999\r\n\r\n", b"GET /ok HTTP/1.1\r\n\r\n", b"\r\n"]);
}
