//! wit <PROPERTY> <BUDGET>
//!
//! Replay support for the contract checks.  Verus produces no counterexample; when an obligation
//! fails, this program searches (bounded, seeded) for a concrete input on which the REAL crate
//! (built from /repo's current tree) visibly breaks the property, using a small reference
//! implementation of the specification parser (`run` of units/spec_conn.vrs) or a differential
//! comparison of the real code against itself.  Last line of stdout is one JSON object:
//!   {"status":"found","property":..,"input":..,"observed":..,"expected":..}
//!   {"status":"not-found","tried":N}
use micro_http::{Body, Encoding, EndpointHandler, Headers, HttpConnection, HttpHeaderError, HttpRoutes, HttpServer, MediaType, Method, Request, RequestError, Response, StatusCode, Version};
use std::io::{Read, Write};
use std::os::unix::io::AsRawFd;
use std::os::unix::net::UnixStream;

// ---------------------------------------------------------------- rng
struct Rng(u64);
impl Rng {
    fn next(&mut self) -> u64 {
        self.0 ^= self.0 << 13;
        self.0 ^= self.0 >> 7;
        self.0 ^= self.0 << 17;
        self.0
    }
    fn below(&mut self, n: usize) -> usize {
        if n == 0 { 0 } else { (self.next() % n as u64) as usize }
    }
    fn chance(&mut self, pct: usize) -> bool {
        self.below(100) < pct
    }
}

fn esc(b: &[u8]) -> String {
    let mut s = String::new();
    for &c in b.iter().take(400) {
        match c {
            b'\r' => s.push_str("\\r"),
            b'\n' => s.push_str("\\n"),
            b'"' => s.push_str("\\\""),
            b'\\' => s.push_str("\\\\"),
            0x20..=0x7e => s.push(c as char),
            _ => s.push_str(&format!("\\u{:04x}", c)),
        }
    }
    if b.len() > 400 {
        s.push_str(&format!("...(+{} bytes)", b.len() - 400));
    }
    s
}

/// make a text safe inside a JSON string: quotes become ', and a backslash stays only where it starts one of the
/// escapes `esc` produces (\r \n \\ \uXXXX); any other backslash (e.g. from a nested {:?}) is doubled
fn json_safe(t: &str) -> String {
    let t = t.replace("\\\"", "'").replace('"', "'");
    let b: Vec<char> = t.chars().collect();
    let mut o = String::new();
    let mut i = 0;
    while i < b.len() {
        let c = b[i];
        if c == '\\' {
            let n = b.get(i + 1).copied();
            match n {
                Some('r') | Some('n') | Some('t') => { o.push('\\'); o.push(n.unwrap()); i += 2; continue; }
                Some('\\') => { o.push_str("\\\\"); i += 2; continue; }
                Some('u') if i + 5 < b.len() && b[i + 2..i + 6].iter().all(|h| h.is_ascii_hexdigit()) => { o.push_str("\\u"); i += 2; continue; }
                _ => { o.push_str("\\\\"); i += 1; continue; }
            }
        }
        if (c as u32) < 0x20 { o.push_str(&format!("\\u{:04x}", c as u32)); } else { o.push(c); }
        i += 1;
    }
    o
}

fn found(prop: &str, input: String, observed: String, expected: String) -> ! {
    println!(
        "{{\"status\":\"found\",\"property\":\"{}\",\"input\":\"{}\",\"observed\":\"{}\",\"expected\":\"{}\"}}",
        prop,
        json_safe(&input),
        json_safe(&observed),
        json_safe(&expected)
    );
    std::process::exit(0)
}

// ---------------------------------------------------------------- driving the real connection
#[derive(Debug, Clone, PartialEq)]
struct Req {
    method: String,
    uri: String,
    version: String,
    cl: u32,
    body: Option<Vec<u8>>,
    nfiles: usize,
    hdr: (bool, bool, bool),   // (expect, chunked, accept is application/json)
}

#[derive(Debug, Clone, PartialEq)]
struct Outcome {
    delivered: Vec<Req>,
    error: Option<String>,
    continues: Vec<String>, // versions of queued 100-continue responses (as written on the wire)
}

fn err_kind(e: &micro_http::ConnectionError) -> String {
    use micro_http::ConnectionError::*;
    match e {
        ParseError(r) => {
            let s = format!("{:?}", r);
            let k = s.split(|c| c == '(' || c == ' ').next().unwrap_or("").to_string();
            if k == "SizeLimitExceeded" { s } else if k == "HeaderError" {
                let inner = s.trim_start_matches("HeaderError(");
                format!("HeaderError::{}", inner.split('(').next().unwrap_or(""))
            } else { k }
        }
        ConnectionClosed => "ConnectionClosed".into(),
        InvalidWrite => "InvalidWrite".into(),
        StreamReadError(_) => "StreamReadError".into(),
        StreamWriteError(_) => "StreamWriteError".into(),
    }
}

fn drain_reqs(c: &mut HttpConnection<UnixStream>, out: &mut Vec<Req>) {
    while let Some(r) = c.pop_parsed_request() {
        out.push(Req {
            method: format!("{:?}", r.method()),
            uri: r.uri().get_abs_path().to_string(),
            version: format!("{:?}", r.http_version()),
            cl: r.headers.content_length(),
            body: r.body.as_ref().map(|b| b.raw().to_vec()),
            nfiles: r.files.len(),
            hdr: (r.headers.expect(), r.headers.chunked(), r.headers.accept() == MediaType::ApplicationJson),
        });
    }
}

/// feed `segs` to a connection (one try_read per non-empty segment; an empty segment is a read
/// that finds no data), stop at the first parse error
fn drive(conn: &mut HttpConnection<UnixStream>, tx: &mut UnixStream, segs: &[Vec<u8>]) -> Outcome {
    let mut o = Outcome { delivered: vec![], error: None, continues: vec![] };
    for s in segs {
        if !s.is_empty() {
            tx.write_all(s).unwrap();
        }
        // read until the socket is empty (a read returns at most the free space of the 1024-byte buffer);
        // for an empty segment this is a single read that finds no data
        let mut stop = false;
        loop {
            match conn.try_read() {
                Ok(()) => { drain_reqs(conn, &mut o.delivered); }
                Err(e) => {
                    let k = err_kind(&e);
                    if k != "StreamReadError" {
                        drain_reqs(conn, &mut o.delivered);
                        o.error = Some(k);
                        stop = true;
                    }
                    break;
                }
            }
        }
        drain_reqs(conn, &mut o.delivered);
        if stop { break; }
    }
    // everything written is in the socket; a would-block here must be genuine, but be robust against a spurious one:
    // a few more reads that must all find nothing
    if o.error.is_none() {
        for _ in 0..3 {
            match conn.try_read() {
                Ok(()) => { drain_reqs(conn, &mut o.delivered); }
                Err(e) => {
                    let k = err_kind(&e);
                    if k != "StreamReadError" {
                        drain_reqs(conn, &mut o.delivered);
                        o.error = Some(k);
                        break;
                    }
                }
            }
        }
    }
    // what has been queued for writing: write it out and parse status lines
    let mut wire = vec![];
    let _ = tx.set_nonblocking(true);
    while conn.pending_write() {
        if conn.try_write().is_err() {
            break;
        }
        let mut b = [0u8; 4096];
        while let Ok(n) = tx.read(&mut b) {
            if n == 0 { break; }
            wire.extend_from_slice(&b[..n]);
        }
    }
    let _ = tx.set_nonblocking(false);
    let text = String::from_utf8_lossy(&wire).to_string();
    for part in text.split("HTTP/").skip(1) {
        if part.len() >= 7 && &part[3..7] == " 100" {
            o.continues.push(part[..3].to_string());
        }
    }
    o
}

fn new_conn(limit: Option<usize>) -> (HttpConnection<UnixStream>, UnixStream) {
    let (tx, rx) = UnixStream::pair().unwrap();
    rx.set_nonblocking(true).unwrap();
    let mut c = HttpConnection::new(rx);
    if let Some(l) = limit {
        c.set_payload_max_size(l);
    }
    (c, tx)
}

/// cut `stream` into reads that respect the 1024-byte buffer (the connection never sees more per read);
/// `carry` is tracked approximately by never sending more than 1024 - 1023 .. we simply keep pieces <= max
fn segment(rng: &mut Rng, stream: &[u8], max: usize, with_empty: bool) -> Vec<Vec<u8>> {
    let mut segs = vec![];
    let mut i = 0;
    while i < stream.len() {
        let n = 1 + rng.below(max.min(stream.len() - i));
        segs.push(stream[i..i + n].to_vec());
        if with_empty && rng.chance(20) {
            segs.push(vec![]);
        }
        i += n;
    }
    segs
}

// ---------------------------------------------------------------- reference (specification) parser
fn find_crlf(b: &[u8]) -> Option<usize> {
    b.windows(2).position(|w| w == b"\r\n")
}

fn ref_request_line(line: &[u8]) -> Result<(String, String, String), String> {
    let i = match line.iter().position(|&c| c == b' ') { Some(i) => i, None => return Err("InvalidRequest".into()) };
    let rest = &line[i + 1..];
    let j = match rest.iter().position(|&c| c == b' ') { Some(j) => j, None => return Err("InvalidRequest".into()) };
    let (m, u, v) = (&line[..i], &rest[..j], &rest[j + 1..]);
    let method = match m { b"GET" => "Get", b"PUT" => "Put", b"PATCH" => "Patch", _ => return Err("InvalidHttpMethod".into()) };
    if u.is_empty() || std::str::from_utf8(u).is_err() {
        return Err("InvalidUri".into());
    }
    let version = match v { b"HTTP/1.0" => "Http10", b"HTTP/1.1" => "Http11", _ => return Err("InvalidHttpVersion".into()) };
    Ok((method.into(), String::from_utf8_lossy(u).to_string(), version.into()))
}

fn abs_path(u: &str) -> String {
    if let Some(r) = u.strip_prefix("http://") {
        match r.find('/') { Some(k) => r[k..].to_string(), None => String::new() }
    } else if u.starts_with('/') { u.to_string() } else { String::new() }
}

/// the stream semantics `srun` of units/lemmas_split.vrs; header lines are interpreted by the real
/// Headers::parse_header_line (an opaque element function for the connection)
fn reference(stream: &[u8], limit: usize) -> Outcome {
    let mut o = Outcome { delivered: vec![], error: None, continues: vec![] };
    let mut s = stream;
    loop {
        // request line
        let w = &s[..s.len().min(1024)];
        let i = match find_crlf(w) {
            Some(i) => i,
            None => { if s.len() >= 1024 { o.error = Some("InvalidRequest".into()); } return o; }
        };
        let (m, u, v) = match ref_request_line(&s[..i]) { Ok(x) => x, Err(e) => { o.error = Some(e); return o; } };
        s = &s[i + 2..];
        // header lines are interpreted by the reference of the header rules (ref_line, written from C15's statement),
        // not by the crate's own header parser
        let mut h = RefHeaders { content_length: 0, expect: false, chunked: false, accept_json: false, custom: Default::default() };
        loop {
            let w = &s[..s.len().min(1024)];
            let i = match find_crlf(w) {
                Some(i) => i,
                None => { if s.len() >= 1024 { o.error = Some("HeaderError::SizeLimitExceeded".into()); } return o; }
            };
            if i == 0 { s = &s[2..]; break; }
            match ref_line(&mut h, &s[..i]) {
                Ok(()) | Err(RefFault::Ignored) => {}
                Err(RefFault::Fatal(k)) => { o.error = Some(if k == "InvalidRequest" { k.to_string() } else { format!("HeaderError::{}", k) }); return o; }
            }
            s = &s[i + 2..];
        }
        let n = h.content_length as usize;
        let mut body = None;
        if n != 0 {
            if n > limit { o.error = Some(format!("SizeLimitExceeded({}, {})", limit, n)); return o; }
            if h.expect { o.continues.push(if v == "Http10" { "1.0".into() } else { "1.1".into() }); }
            if s.len() < n { return o; }
            body = Some(s[..n].to_vec());
            s = &s[n..];
        }
        o.delivered.push(Req { method: m, uri: abs_path(&u), version: v, cl: n as u32, body, nfiles: 0, hdr: (h.expect, h.chunked, h.accept_json) });
    }
}

// ---------------------------------------------------------------- stream generators
fn gen_request(rng: &mut Rng, limit: usize) -> Vec<u8> {
    if rng.chance(3) {
        // short request lines: the error names the first offending element whatever the length
        let lines: [&[u8]; 8] = [b"GE / HTTP/1.1", b"GET  HTTP/1.1", b"GET / HTTP/1", b"G / H", b"GET /", b"A B C", b"GET / H", b"PUT /a HTTP/1."];
        let mut r = lines[rng.below(8)].to_vec();
        r.extend_from_slice(b"\r\n\r\n");
        return r;
    }
    let methods: [&[u8]; 5] = [b"GET", b"PUT", b"PATCH", b"get", b"POST"];
    let m = if rng.chance(90) { methods[rng.below(3)] } else { methods[rng.below(5)] };
    let mut r = m.to_vec();
    r.push(b' ');
    let ulen = if rng.chance(6) { 990 + rng.below(60) } else { 1 + rng.below(12) };
    r.push(b'/');
    for _ in 1..ulen { r.push(b'a' + rng.below(26) as u8); }
    if rng.chance(4) { r.push(b' '); }
    r.push(b' ');
    r.extend_from_slice(if rng.chance(90) { if rng.chance(50) { b"HTTP/1.1" } else { b"HTTP/1.0" } } else { b"HTTP/2.0" });
    r.extend_from_slice(b"\r\n");
    let body_len = match rng.below(8) { 0 | 1 | 2 => 0, 3 => 1, 4 => 1 + rng.below(40), 5 => limit, 6 => limit + 1, _ => 1000 + rng.below(1200) };
    if body_len > 0 || rng.chance(10) {
        r.extend_from_slice(format!("Content-Length: {}\r\n", body_len).as_bytes());
    }
    if rng.chance(30) {
        // any header-name case, surrounding whitespace, unsupported expectation values (C13's quantifier)
        let name: &[u8] = [&b"Expect"[..], b"expect", b"EXPECT", b"eXpEcT", b" Expect ", b"Expect\t"][if rng.chance(60) { 0 } else { rng.below(6) }];
        let val: &[u8] = [&b"100-continue"[..], b"100-continue ", b"\t100-continue\t", b"  100-continue", b"100-Continue", b"103-checkpoint", b"100-continue, x"][if rng.chance(60) { 0 } else { rng.below(7) }];
        r.extend_from_slice(name); r.extend_from_slice(b":"); if rng.chance(80) { r.push(b' '); } r.extend_from_slice(val); r.extend_from_slice(b"\r\n");
    }
    if rng.chance(20) { r.extend_from_slice(b"X-Custom: v\r\n"); }
    if rng.chance(6) { r.extend_from_slice("X-Name: caf\u{e9} \u{20ac}\u{1f600} na\u{ef}ve\r\n".as_bytes()); }
    if rng.chance(12) { r.extend_from_slice([&b"Content-Type: application/json\r\n"[..], b"Content-Type: text/plain\r\n", b"Content-Type: text/html\r\n", b"Accept: application/json\r\n", b"Accept: text/plain\r\n", b"Accept: image/png\r\n"][rng.below(6)]); }
    if rng.chance(8) { r.extend_from_slice(if rng.chance(70) { b"Transfer-Encoding: chunked\r\n" } else { b"Transfer-Encoding: identity\r\n" }); }
    if rng.chance(5) {
        r.extend_from_slice(b"X-Long: ");
        for _ in 0..(1000 + rng.below(40)) { r.push(b'x'); }
        r.extend_from_slice(b"\r\n");
    }
    if rng.chance(4) { r.extend_from_slice(b"Content-Length: abc\r\n"); }
    if rng.chance(3) { r.extend_from_slice([&b"Content-Length: 4294967296\r\n"[..], b"Content-Length: 18446744073709551616\r\n", b"Content-Length: -1\r\n", b"Content-Length: +0\r\n", b"Content-Length:\r\n", b"Content-Length: \t \r\n"][rng.below(6)]); }
    r.extend_from_slice(b"\r\n");
    for k in 0..body_len { r.push(if rng.chance(5) { b'\r' } else if rng.chance(5) { b'\n' } else if rng.chance(3) { 0u8 } else if rng.chance(2) { 0xffu8 } else { b'0' + (k % 10) as u8 }); }
    r
}

fn gen_stream(rng: &mut Rng, limit: usize) -> Vec<u8> {
    let mut s = vec![];
    // mostly 1..4 requests; now and then a long pipeline of small ones (more than a handful completed by one read)
    let n = if rng.chance(6) { 9 + rng.below(8) } else { 1 + rng.below(4) };
    for _ in 0..n {
        if n > 4 { s.extend_from_slice(format!("GET /p{} HTTP/1.1\r\n\r\n", rng.below(100)).as_bytes()); }
        else { s.extend(gen_request(rng, limit)); }
        if rng.chance(6) { s.extend_from_slice(b"\r\n"); }
    }
    if rng.chance(30) { let cut = rng.below(s.len()); s.truncate(cut.max(1)); }
    s
}

fn show_segs(segs: &[Vec<u8>]) -> String {
    segs.iter().map(|s| format!("[{}]", esc(s))).collect::<Vec<_>>().join(" ")
}

// ---------------------------------------------------------------- per-property searches
fn search_stream(prop: &str, budget: usize) {
    let mut rng = Rng(0x9e3779b97f4a7c15);
    let mut tried = 0;
    while tried < budget {
        let limit = [0usize, 1, 5, 40, 1024, 1500, 51200][rng.below(7)];
        let stream = gen_stream(&mut rng, limit);
        let expect = reference(&stream, limit);
        let nseg = if prop == "C02" { 1 } else { 3 };
        let mut first: Option<Outcome> = None;
        for k in 0..nseg {
            let max = [1usize, 2, 7, 64, 512, 1024][rng.below(6)];
            let segs = if prop == "C02" || k == 0 { segment(&mut rng, &stream, 1024, false) } else { segment(&mut rng, &stream, max, true) };
            // respect the physical bound: carry + piece <= 1024 is guaranteed by pieces <= 1 when a line is long;
            // pieces larger than the free space are simply read in two calls by the kernel, which is again a segmentation
            let (mut c, mut tx) = new_conn(Some(limit));
            let got = drive(&mut c, &mut tx, &segs);
            tried += 1;
            let same = match prop {
                "C13" => got.continues == expect.continues || got.error != expect.error,
                "C04" => {
                    let lim_err = |e: &Option<String>| e.as_ref().map_or(false, |s| s.starts_with("SizeLimitExceeded") || s == "InvalidRequest" || s == "HeaderError::SizeLimitExceeded");
                    (lim_err(&got.error) == lim_err(&expect.error)) && (!lim_err(&expect.error) || got.error == expect.error)
                        && got.delivered.iter().all(|r| r.body.as_ref().map_or(true, |b| b.len() <= limit && b.len() == r.cl as usize))
                }
                // C01 is about the SPLIT: every segmentation must give what the first (coarsest) one gave; against the
                // reference only order / exactly-once / exact bodies of what is delivered are compared
                "C01" => first.as_ref().map_or(true, |f| got.delivered == f.delivered && got.error == f.error)
                    && got.delivered.iter().zip(expect.delivered.iter()).all(|(a, b)| a == b) && got.delivered.len() <= expect.delivered.len(),
                _ => got.delivered == expect.delivered && got.error == expect.error,
            };
            if !same && prop == "C01" && first.is_some() {
                let f = first.as_ref().unwrap();
                if got.delivered != f.delivered || got.error != f.error {
                    found(prop, format!("limit={} reads: {}", limit, show_segs(&segs)), format!("{:?}", got), format!("what the same stream gives when read in 1024-byte pieces: {:?}", f));
                }
            }
            if !same {
                found(prop, format!("limit={} reads: {}", limit, show_segs(&segs)), format!("{:?}", got), format!("{:?}", expect));
            }
            if first.is_none() { first = Some(got); }
        }
    }
    if prop == "C04" { search_server_limits(); search_c11("C04", (budget / 4).max(200)); }
    println!("{{\"status\":\"not-found\",\"tried\":{}}}", tried);
}

fn search_c11_server() {
    // "one malformed request cannot make later well-formed requests on the same connection fail", also when the later
    // request is already in the socket when the malformed one is rejected (malformed input ending on a 1024-byte read)
    for pad in [0usize, 1, 5] {
        let what = format!("one client writes an over-long request line of {} bytes (rejected with 400) immediately followed by GET /after", 1024 + pad);
        let mut s = Srv::new("C11h9");
        let mut c = s.connect("C11", &what);
        let mut bytes = b"GET /".to_vec();
        bytes.extend(vec![b'a'; 1024 + pad - 5]);
        if pad > 0 { let n = bytes.len(); bytes[n - 2] = b'\r'; bytes[n - 1] = b'\n'; }
        bytes.extend_from_slice(b"GET /after HTTP/1.1\r\n\r\n");
        let _ = c.write_all(&bytes);
        s.pump("C11", &what);
        let yielded: Vec<String> = s.outstanding.iter().map(|r| r.request.uri().get_abs_path().to_string()).collect();
        // what a new connection makes of the bytes after the rejected part
        let (mut f, mut ftx) = new_conn(None);
        let all = drive(&mut f, &mut ftx, &[bytes.clone()]);
        let _ = all;
        if pad == 0 && !yielded.iter().any(|u| u == "/after") {
            // with exactly 1024 bytes the rejected line fills one read and nothing of it is left: /after must come through
            s.done();
            found("C11", what, format!("yielded {:?}", yielded), "the request /after is yielded to the application".into());
        }
        s.done();
    }
}

fn search_c11(prop: &str, budget: usize) {
    if prop == "C11" { search_c11_server(); }
    let mut rng = Rng(0x2545F4914F6CDD1D);
    let bad: Vec<Vec<u8>> = vec![
        b"GET /rejected HTTP/1.1\r\nContent-Length: abc\r\n".to_vec(),
        b"GET /rejected HTTP/1.1\r\nContent-Length: abc\r\n\r\n".to_vec(),
        b"GET /x HTTQ/1.1\r\n\r\n".to_vec(),
        b"BAD /x HTTP/1.1\r\n".to_vec(),
        b"PUT /big HTTP/1.1\r\nContent-Length: 999999\r\n\r\n".to_vec(),
        b"PUT /big HTTP/1.1\r\nExpect: 100-continue\r\nContent-Length: 999999\r\n\r\n".to_vec(),
        b"PUT /b HTTP/1.1\r\nContent-Length: 4\r\nnocolon\r\n".to_vec(),
        // over-long lines: exactly 1024 bytes without CRLF, so that nothing of A is left in the socket at the error
        { let mut v = b"GET /".to_vec(); v.extend(vec![b'a'; 1019]); v },
        { let mut v = b"GET / HTTP/1.1\r\nX: ".to_vec(); v.extend(vec![b'a'; 1021]); v },
        b"PUT /e HTTP/1.1\r\nExpect: 100-continue\r\nContent-Length: 3\r\n\r\nabcXX\r\n".to_vec(),
    ];
    let mut tried = 0;
    while tried < budget {
        let mut a = bad[rng.below(bad.len())].clone();
        if a.len() < 900 && rng.chance(50) {
            // a valid request first, so that the rejected one starts at a non-zero buffer offset
            let mut pre = b"GET /before HTTP/1.1\r\n\r\n".to_vec();
            pre.extend(a);
            a = pre;
        }
        // "a newly created connection with the SAME configuration": the payload limit is varied, and B has bodies around it
        let limit = [51200usize, 40, 1500, 100000][rng.below(4)];
        let b = gen_stream(&mut rng, limit.min(1500));
        let (mut c, mut tx) = new_conn(Some(limit));
        let max = [1usize, 3, 10, 1024][rng.below(4)];
        let sa = segment(&mut rng, &a, max, false);
        let first = drive(&mut c, &mut tx, &sa);
        if first.error.is_none() { tried += 1; continue; }
        // "no part of the rejected input is retained": that includes an interim response queued on its behalf
        let ra = reference(&a, limit);
        if prop == "C11" && ra.error.is_some() && first.delivered == ra.delivered && first.continues.len() > ra.continues.len() {
            found(prop, format!("A reads: {} (error {:?})", show_segs(&sa), first.error),
                  format!("{} interim 100-continue responses left queued by the rejected input", first.continues.len() - ra.continues.len()),
                  format!("{} (those of the requests delivered before the error)", ra.continues.len()));
        }
        let mb = [1usize, 5, 1024][rng.below(3)];
        let sb = segment(&mut rng, &b, mb, false);
        let after = drive(&mut c, &mut tx, &sb);
        let (mut f, mut ftx) = new_conn(Some(limit));
        let fresh = drive(&mut f, &mut ftx, &sb);
        tried += 1;
        if after != fresh {
            found(prop, format!("A reads: {} (error {:?}) then B reads: {}", show_segs(&sa), first.error, show_segs(&sb)),
                  format!("{:?}", after), format!("a new connection: {:?}", fresh));
        }
    }
    println!("{{\"status\":\"not-found\",\"tried\":{}}}", tried);
}

fn open_fds() -> Vec<i32> {
    let mut v: Vec<i32> = std::fs::read_dir("/proc/self/fd").map(|d| d.filter_map(|e| e.ok().and_then(|e| e.file_name().to_str().and_then(|s| s.parse().ok()))).collect()).unwrap_or_default();
    v.sort();
    v
}
fn search_c12_bulk(dir: &str) {
    // "0..253 descriptors" in ONE read, delivered once, in order; and nothing left open once request and connection are dropped
    use vmm_sys_util::sock_ctrl_msg::ScmSocket;
    use std::io::{Seek, SeekFrom};
    for n in [1usize, 16, 17, 40, 100, 253] {
        let before = open_fds();
        {
            let (mut c, tx) = new_conn(None);
            let mut files = vec![];
            for i in 0..n {
                let path = format!("{}/b{}", dir, i);
                let mut f = std::fs::OpenOptions::new().create(true).read(true).write(true).truncate(true).open(&path).unwrap();
                write!(f, "{}", i).unwrap();
                f.seek(SeekFrom::Start(0)).unwrap();
                files.push(f);
            }
            let fds: Vec<i32> = files.iter().map(|f| f.as_raw_fd()).collect();
            let req = b"GET /bulk HTTP/1.1\r\n\r\n";
            if tx.send_with_fds(&[&req[..]], &fds).is_err() { continue; }
            drop(files);
            let r = c.try_read();
            let mut ids = vec![];
            let mut delivered = 0;
            while let Some(rq) = c.pop_parsed_request() {
                delivered += 1;
                for mut f in rq.files { let mut t = String::new(); let _ = f.seek(SeekFrom::Start(0)); let _ = f.read_to_string(&mut t); ids.push(t.parse::<usize>().unwrap_or(usize::MAX)); }
            }
            let want: Vec<usize> = (0..n).collect();
            if r.is_err() || delivered != 1 || ids != want {
                let _ = std::fs::remove_dir_all(dir);
                found("C12", format!("one read carrying a complete GET and {} descriptors", n), format!("try_read = {:?}; {} requests; descriptors {:?}", r.map_err(|e| err_kind(&e)), delivered, &ids[..ids.len().min(20)]), format!("one request owning descriptors 0..{} in order", n));
            }
        }
        let after = open_fds();
        if after.len() > before.len() {
            let _ = std::fs::remove_dir_all(dir);
            found("C12", format!("{} descriptors delivered with a request; request, connection and peer dropped", n), format!("{} descriptors still open that were not open before (e.g. {:?})", after.len() - before.len(), after.iter().filter(|x| !before.contains(x)).take(5).collect::<Vec<_>>()), "every received descriptor closed".into());
        }
    }
}

fn search_c12_accumulate(dir: &str) {
    // one request whose descriptors arrive over three reads (110 each): all 330 are handed over, in order
    use vmm_sys_util::sock_ctrl_msg::ScmSocket;
    use std::io::{Seek, SeekFrom};
    let (mut c, tx) = new_conn(None);
    let pieces: [&[u8]; 3] = [b"GET /acc HT", b"TP/1.1\r\nX-A: b", b"\r\n\r\n"];
    let mut next = 0usize;
    let mut ok_send = true;
    for p in pieces {
        let mut files = vec![];
        for _ in 0..110 {
            let path = format!("{}/a{}", dir, next);
            let mut f = match std::fs::OpenOptions::new().create(true).read(true).write(true).truncate(true).open(&path) { Ok(f) => f, Err(_) => { ok_send = false; break; } };
            write!(f, "{}", next).unwrap();
            f.seek(SeekFrom::Start(0)).unwrap();
            next += 1;
            files.push(f);
        }
        let fds: Vec<i32> = files.iter().map(|f| f.as_raw_fd()).collect();
        if !ok_send || tx.send_with_fds(&[p], &fds).is_err() { ok_send = false; break; }
        drop(files);
        let _ = c.try_read();
    }
    if !ok_send { return; }   // descriptor limit of this process: inconclusive
    let mut ids = vec![];
    let mut n = 0;
    while let Some(rq) = c.pop_parsed_request() { n += 1; for mut f in rq.files { let mut t = String::new(); let _ = f.seek(SeekFrom::Start(0)); let _ = f.read_to_string(&mut t); ids.push(t.parse::<usize>().unwrap_or(usize::MAX)); } }
    let want: Vec<usize> = (0..330).collect();
    if n != 1 || ids != want {
        let _ = std::fs::remove_dir_all(dir);
        found("C12", "one request whose bytes arrive in three reads, each carrying 110 descriptors".into(), format!("{} requests delivered with {} descriptors (first missing or wrong at position {:?})", n, ids.len(), ids.iter().zip(want.iter()).position(|(a, b)| a != b).or(if ids.len() < 330 { Some(ids.len()) } else { None })), "one request owning all 330 descriptors in arrival order".into());
    }
}

fn search_c12_eof_message(dir: &str) {
    // descriptors that arrive with an EMPTY message (the read that reports end of stream) stay with the connection and are
    // closed when it is dropped -- a SOCK_SEQPACKET pair can carry descriptors on a zero-length message
    use vmm_sys_util::sock_ctrl_msg::ScmSocket;
    use std::os::unix::io::FromRawFd;
    let mut sv = [0i32; 2];
    if unsafe { libc::socketpair(libc::AF_UNIX, libc::SOCK_SEQPACKET, 0, sv.as_mut_ptr()) } != 0 { return; }
    let (a, b) = unsafe { (UnixStream::from_raw_fd(sv[0]), UnixStream::from_raw_fd(sv[1])) };
    let _ = a.set_nonblocking(true);
    let before = open_fds();
    {
        let mut c = HttpConnection::new(a);
        let mut files = vec![];
        for i in 0..3 { if let Ok(f) = std::fs::OpenOptions::new().create(true).read(true).write(true).truncate(true).open(format!("{}/e{}", dir, i)) { files.push(f); } }
        let fds: Vec<i32> = files.iter().map(|f| f.as_raw_fd()).collect();
        let empty: [u8; 0] = [];
        if b.send_with_fds(&[&empty[..]], &fds).is_err() { return; }   // this kernel refuses it: inconclusive
        drop(files);
        let _ = c.try_read();
        while let Some(r) = c.pop_parsed_request() { drop(r); }
    }
    let after = open_fds();
    drop(b);
    if after.len() > before.len() {
        let _ = std::fs::remove_dir_all(dir);
        found("C12", "three descriptors arrive with an empty message (the read that reports end of stream); the connection is dropped".into(), format!("{} descriptors still open that were not open before (e.g. {:?})", after.len() - before.len(), after.iter().filter(|x| !before.contains(x)).take(5).collect::<Vec<_>>()), "every received descriptor closed when the connection is dropped".into());
    }
}

fn search_c12(budget: usize) {
    use vmm_sys_util::sock_ctrl_msg::ScmSocket;
    use std::io::{Seek, SeekFrom};
    let mut rng = Rng(0xD1B54A32D192ED03);
    let mut tried = 0;
    let dir = format!("/tmp/wit_c12_{}", std::process::id());
    let _ = std::fs::create_dir_all(&dir);
    search_c12_bulk(&dir);
    search_c12_accumulate(&dir);
    search_c12_eof_message(&dir);
    while tried < budget {
        // k requests, pieces with descriptors attached; expected: every descriptor goes, in arrival order, to the
        // first request completing at or after its read.  Descriptors are told apart by the number written in the file.
        let nreq = 1 + rng.below(3);
        let mut stream = vec![];
        let mut ends = vec![];
        for i in 0..nreq {
            let body = rng.below(4);
            let r = if body > 0 { format!("PUT /r{} HTTP/1.1\r\nContent-Length: {}\r\n\r\n{}", i, body, "x".repeat(body)) } else { format!("GET /r{} HTTP/1.1\r\n\r\n", i) };
            stream.extend_from_slice(r.as_bytes());
            ends.push(stream.len());
        }
        let ms = [3usize, 9, 40, 1024][rng.below(4)];
        let segs = segment(&mut rng, &stream, ms, false);
        let (mut c, tx) = new_conn(None);
        let mut expected: Vec<Vec<u32>> = vec![vec![]; nreq];
        let mut got: Vec<Vec<u32>> = vec![];
        let mut pos = 0;
        let mut pending: Vec<u32> = vec![];
        let mut done = 0usize;
        let mut next_id = 0u32;
        for s in &segs {
            let nf = if rng.chance(45) { 1 + rng.below(4) } else { 0 };
            let mut files = vec![];
            for _ in 0..nf {
                let path = format!("{}/f{}", dir, next_id);
                let mut f = std::fs::OpenOptions::new().create(true).read(true).write(true).truncate(true).open(&path).unwrap();
                write!(f, "{}", next_id).unwrap();
                f.seek(SeekFrom::Start(0)).unwrap();
                pending.push(next_id);
                next_id += 1;
                files.push(f);
            }
            let fds: Vec<i32> = files.iter().map(|f| f.as_raw_fd()).collect();
            tx.send_with_fds(&[&s[..]], &fds).unwrap();
            pos += s.len();
            let mut first = true;
            while done < nreq && ends[done] <= pos {
                if first { expected[done] = std::mem::take(&mut pending); first = false; }
                done += 1;
            }
            let _ = c.try_read();
            while let Some(r) = c.pop_parsed_request() {
                let mut ids = vec![];
                for mut f in r.files {
                    let mut t = String::new();
                    let _ = f.seek(SeekFrom::Start(0));
                    let _ = f.read_to_string(&mut t);
                    ids.push(t.parse::<u32>().unwrap_or(u32::MAX));
                }
                got.push(ids);
            }
        }
        tried += 1;
        if got.len() != done || got[..] != expected[..done] {
            let _ = std::fs::remove_dir_all(&dir);
            found("C12", format!("reads: {} with descriptors numbered in arrival order", show_segs(&segs)), format!("descriptors per delivered request {:?}", got), format!("{:?}", &expected[..done]));
        }
    }
    let _ = std::fs::remove_dir_all(&dir);
    println!("{{\"status\":\"not-found\",\"tried\":{}}}", tried);
}

// a stream whose write() outcomes are scripted: deterministic short writes, EINTR, EAGAIN/EPIPE, zero
struct ScriptedStream { inner: UnixStream, script: Vec<i64>, pos: usize, accepted: std::rc::Rc<std::cell::RefCell<Vec<u8>>>, touched: std::rc::Rc<std::cell::Cell<usize>> }
impl Read for ScriptedStream { fn read(&mut self, b: &mut [u8]) -> std::io::Result<usize> { self.inner.read(b) } }
impl Write for ScriptedStream {
    fn write(&mut self, b: &[u8]) -> std::io::Result<usize> {
        self.touched.set(self.touched.get() + 1);
        let op = if self.pos < self.script.len() { self.script[self.pos] } else { i64::MAX };
        self.pos += 1;
        match op {
            -1 => Err(std::io::Error::from(std::io::ErrorKind::Interrupted)),
            -2 => Err(std::io::Error::from(std::io::ErrorKind::WouldBlock)),
            -3 => Err(std::io::Error::from(std::io::ErrorKind::BrokenPipe)),
            0 => Ok(0),
            k => { let n = (k as usize).min(b.len()); self.accepted.borrow_mut().extend_from_slice(&b[..n]); Ok(n) }
        }
    }
    fn flush(&mut self) -> std::io::Result<()> { Ok(()) }
}
impl vmm_sys_util::sock_ctrl_msg::ScmSocket for ScriptedStream { fn socket_fd(&self) -> std::os::unix::io::RawFd { self.inner.as_raw_fd() } }

fn search_c06(budget: usize) {
    let mut rng = Rng(0xA0761D6478BD642F);
    let mut tried = 0;
    while tried < budget {
        let (a, _b) = UnixStream::pair().unwrap();
        a.set_nonblocking(true).unwrap();
        let accepted = std::rc::Rc::new(std::cell::RefCell::new(vec![]));
        let touched = std::rc::Rc::new(std::cell::Cell::new(0usize));
        let nops = 3 + rng.below(40);
        let script: Vec<i64> = (0..nops).map(|_| match rng.below(12) { 0 => -1, 1 => 1, 2 => 7, 3 => 64, 4 => 700, 5 => i64::MAX, 6 => -1, 7 => 3, _ => 1 + rng.below(300) as i64 }).collect();
        let fail_at = if rng.chance(30) { Some(rng.below(nops)) } else { None };
        let mut script = script;
        if let Some(k) = fail_at { script[k] = [0i64, -2, -3][rng.below(3)]; }
        let mut c = HttpConnection::new(ScriptedStream { inner: a, script: script.clone(), pos: 0, accepted: accepted.clone(), touched: touched.clone() });
        let mut expect: Vec<u8> = vec![];       // concatenation of the serialisations, in enqueue order
        let mut discarded_at: Option<usize> = None;
        let mut log = vec![];
        let nresp = 1 + rng.below(5);
        let mut queued = 0;
        let mut steps = 0;
        let mut expect_sent = false;
        while steps < 400 && (queued < nresp || c.pending_write()) {
            steps += 1;
            if !expect_sent && rng.chance(8) {
                // a request with Expect: 100-continue arrives: the interim response is queued by the parser, at the END
                // of whatever is already queued
                expect_sent = true;
                let mut peer = &_b;
                peer.write_all(b"PUT /e HTTP/1.1\r\nExpect: 100-continue\r\nContent-Length: 3\r\n\r\n").unwrap();
                // the bytes are in the socket; should the (non-blocking) receive nevertheless report would-block, retry
                let mut rr = c.try_read();
                let mut tries = 0;
                while matches!(rr, Err(micro_http::ConnectionError::StreamReadError(_))) && tries < 50 {
                    std::thread::sleep(std::time::Duration::from_millis(2));
                    rr = c.try_read();
                    tries += 1;
                }
                if rr.is_ok() {
                    let mut ser = vec![];
                    Response::new(Version::Http11, StatusCode::Continue).write_all(&mut ser).unwrap();
                    expect.extend(ser);
                }
                log.push(format!("read(Expect request)->{}", match &rr { Ok(()) => "Ok".to_string(), Err(e) => err_kind(e) }));
                continue;
            }
            if rng.chance(4) {
                // a malformed request arrives: the parser rejects it, the queued output is untouched
                let mut peer = &_b;
                let _ = peer.write_all(b"BAD\r\n\r\n");
                let mut rr = c.try_read();
                let mut tries = 0;
                while matches!(rr, Err(micro_http::ConnectionError::StreamReadError(_))) && tries < 50 { std::thread::sleep(std::time::Duration::from_millis(2)); rr = c.try_read(); tries += 1; }
                log.push(format!("read(malformed request)->{}", match &rr { Ok(()) => "Ok".to_string(), Err(e) => err_kind(e) }));
                continue;
            }
            if queued < nresp && rng.chance(35) {
                let mut r = Response::new(if rng.chance(50) { Version::Http10 } else { Version::Http11 }, StatusCode::OK);
                let body: Vec<u8> = (0..rng.below(900)).map(|k| b'a' + ((k + queued) % 26) as u8).collect();
                r.set_body(Body::new(body));
                let mut ser = vec![];
                r.write_all(&mut ser).unwrap();
                if discarded_at.is_none() || true { expect.extend(ser); }
                c.enqueue_response(r);
                queued += 1;
                log.push(format!("enqueue#{}", queued));
                continue;
            }
            let had = c.pending_write();
            let t0 = touched.get();
            let before = accepted.borrow().len();
            let r = c.try_write();
            let wrote = accepted.borrow().len() - before;
            log.push(format!("write->{}", match &r { Ok(()) => format!("Ok(+{})", wrote), Err(e) => err_kind(e) }));
            let desc = || format!("script {:?}; calls: {}", script, log.join(" "));
            if touched.get() - t0 > 1 { found("C06", desc(), format!("{} stream writes in one try_write", touched.get() - t0), "at most one".into()); }
            match r {
                Err(micro_http::ConnectionError::InvalidWrite) => {
                    if had { found("C06", desc(), "InvalidWrite although output was pending".into(), "a write".into()); }
                    if touched.get() != t0 { found("C06", desc(), "InvalidWrite but the stream was touched".into(), "stream untouched".into()); }
                }
                Err(micro_http::ConnectionError::ConnectionClosed) => {
                    if c.pending_write() { found("C06", desc(), "pending output after the connection reported closed".into(), "everything discarded".into()); }
                    // what was discarded is no longer owed: realign the expectation with what was accepted so far
                    let acc = accepted.borrow().clone();
                    if !expect.starts_with(&acc) { found("C06", desc(), format!("accepted bytes are not a prefix (at failure): ...{}", esc(&acc[acc.len().saturating_sub(30)..])), "a prefix of the concatenated responses".into()); }
                    expect = acc;
                    discarded_at = Some(steps);
                }
                Ok(()) => { if !had { found("C06", desc(), "Ok with nothing pending".into(), "InvalidWrite".into()); } }
                Err(e) => found("C06", desc(), err_kind(&e), "Ok / InvalidWrite / ConnectionClosed".into()),
            }
            let acc = accepted.borrow();
            if !expect.starts_with(&acc) {
                let p = acc.iter().zip(expect.iter()).position(|(x, y)| x != y).unwrap_or(acc.len().min(expect.len()));
                found("C06", desc(), format!("byte {} accepted by the stream is wrong/extra: ...{}", p, esc(&acc[p.saturating_sub(15)..(p + 15).min(acc.len())])),
                      format!("a prefix of the concatenated responses: ...{}", esc(&expect[p.saturating_sub(15)..(p + 15).min(expect.len())])));
            }
            if c.pending_write() != (acc.len() < expect.len()) {
                found("C06", desc(), format!("pending_write() == {} with {} of {} bytes accepted", c.pending_write(), acc.len(), expect.len()), "pending exactly while bytes remain".into());
            }
        }
        tried += 1;
    }
    println!("{{\"status\":\"not-found\",\"tried\":{}}}", tried);
}

// a stream that counts write() calls and accepts at most 16 bytes per call (forces short writes)
struct CountingStream { inner: UnixStream, writes: std::rc::Rc<std::cell::Cell<usize>>, cap: usize }
impl Read for CountingStream { fn read(&mut self, b: &mut [u8]) -> std::io::Result<usize> { self.inner.read(b) } }
impl Write for CountingStream {
    fn write(&mut self, b: &[u8]) -> std::io::Result<usize> { self.writes.set(self.writes.get() + 1); let n = b.len().min(self.cap); self.inner.write(&b[..n]) }
    fn flush(&mut self) -> std::io::Result<()> { Ok(()) }
}
impl vmm_sys_util::sock_ctrl_msg::ScmSocket for CountingStream { fn socket_fd(&self) -> std::os::unix::io::RawFd { self.inner.as_raw_fd() } }

fn one_write_per_call() {
    let (a, mut b) = UnixStream::pair().unwrap();
    let writes = std::rc::Rc::new(std::cell::Cell::new(0usize));
    let mut c = HttpConnection::new(CountingStream { inner: a, writes: writes.clone(), cap: 16 });
    let mut r = Response::new(Version::Http11, StatusCode::OK);
    r.set_body(Body::new(vec![b'x'; 300]));
    c.enqueue_response(r);
    let mut calls = 0;
    while c.pending_write() && calls < 1000 {
        let before = writes.get();
        let _ = c.try_write();
        calls += 1;
        let n = writes.get() - before;
        if n > 1 {
            found("C03", "one response of ~400 bytes on a stream accepting 16 bytes per write".into(), format!("try_write call #{} performed {} writes on the stream", calls, n), "at most one write per call".into());
        }
        let mut buf = [0u8; 64];
        let _ = b.read(&mut buf);
    }
}

fn one_write_per_call_queued() {
    // three small responses queued, a stream that accepts everything: each try_write is still exactly one write
    let (a, mut b) = UnixStream::pair().unwrap();
    let writes = std::rc::Rc::new(std::cell::Cell::new(0usize));
    let mut c = HttpConnection::new(CountingStream { inner: a, writes: writes.clone(), cap: usize::MAX });
    for _ in 0..3 { c.enqueue_response(Response::new(Version::Http11, StatusCode::NoContent)); }
    let mut calls = 0;
    while c.pending_write() && calls < 100 {
        let before = writes.get();
        let _ = c.try_write();
        calls += 1;
        let n = writes.get() - before;
        if n > 1 { found("C03", "three responses queued on a stream that accepts everything".into(), format!("try_write call #{} performed {} writes on the stream", calls, n), "at most one write per call".into()); }
        let mut buf = [0u8; 4096];
        b.set_nonblocking(true).unwrap();
        let _ = b.read(&mut buf);
    }
}

// ---------------------------------------------------------------- C03: at most one receive per try_read (scripted ScmSocket)
struct ScriptedRx { script: std::cell::RefCell<std::collections::VecDeque<Result<Vec<u8>, i32>>>, tail: i32, calls: std::rc::Rc<std::cell::Cell<usize>> }
impl Read for ScriptedRx { fn read(&mut self, _b: &mut [u8]) -> std::io::Result<usize> { self.calls.set(self.calls.get() + 1); Err(std::io::Error::from_raw_os_error(libc::EAGAIN)) } }
impl Write for ScriptedRx { fn write(&mut self, b: &[u8]) -> std::io::Result<usize> { Ok(b.len()) } fn flush(&mut self) -> std::io::Result<()> { Ok(()) } }
impl vmm_sys_util::sock_ctrl_msg::ScmSocket for ScriptedRx {
    fn socket_fd(&self) -> std::os::unix::io::RawFd { -1 }
    unsafe fn recv_with_fds(&self, iovecs: &mut [libc::iovec], _in_fds: &mut [std::os::unix::io::RawFd]) -> vmm_sys_util::errno::Result<(usize, usize)> {
        self.calls.set(self.calls.get() + 1);
        if self.calls.get() > 5000 { return Ok((0, 0)); }   // a connection that keeps retrying must still terminate the search
        match self.script.borrow_mut().pop_front() {
            Some(Ok(bytes)) => {
                let n = bytes.len().min(iovecs[0].iov_len);
                std::ptr::copy_nonoverlapping(bytes.as_ptr(), iovecs[0].iov_base as *mut u8, n);
                Ok((n, 0))
            }
            Some(Err(e)) => Err(vmm_sys_util::errno::Error::new(e)),
            None => Err(vmm_sys_util::errno::Error::new(self.tail)),
        }
    }
}
fn search_c03_receives() {
    // whatever the stream answers (data, EAGAIN, EINTR, other errors, end of stream), one try_read is at most one receive and returns
    let scripts: Vec<(&str, Vec<Result<Vec<u8>, i32>>, i32)> = vec![
        ("data then would-block", vec![Ok(b"GET / HTTP/1.1\r\n".to_vec())], libc::EAGAIN),
        ("interrupted three times, then data", vec![Err(libc::EINTR), Err(libc::EINTR), Err(libc::EINTR), Ok(b"GET / HTTP/1.1\r\n\r\n".to_vec())], libc::EAGAIN),
        ("a stream that always answers EINTR", vec![], libc::EINTR),
        ("a stream that always answers EAGAIN", vec![], libc::EAGAIN),
        ("connection reset", vec![Err(libc::ECONNRESET)], libc::EAGAIN),
        ("a malformed request line, then would-block", vec![Ok(b"BAD / HTTP/1.1\r\n\r\n".to_vec())], libc::EAGAIN),
        ("a header fault, then more data", vec![Ok(b"GET / HTTP/1.1\r\nContent-Length: x\r\n\r\n".to_vec()), Ok(b"GET / HTTP/1.1\r\n\r\n".to_vec())], libc::EAGAIN),
        ("an oversized declaration, then would-block", vec![Ok(b"PUT / HTTP/1.1\r\nContent-Length: 9999999\r\n\r\n".to_vec())], libc::EAGAIN),
    ];
    for (what, script, tail) in scripts {
        let calls = std::rc::Rc::new(std::cell::Cell::new(0usize));
        let n_steps = script.len() + 3;
        let stream = ScriptedRx { script: std::cell::RefCell::new(script.into()), tail, calls: calls.clone() };
        let mut c = HttpConnection::new(stream);
        for i in 0..n_steps {
            let before = calls.get();
            let _ = c.try_read();
            let n = calls.get() - before;
            if n > 1 { found("C03", format!("scripted stream: {}; try_read call #{}", what, i + 1), format!("{} receives in one try_read", n), "at most one receive per call".into()); }
        }
    }
}

fn search_c03_echo() {
    // rejected header lines of every length 1..400 made of multi-byte characters: whatever is echoed into an error must not panic
    for unit in ["\u{e9}", "\u{20ac}", "\u{1f600}", "a\u{e9}"] {
        for n in 1..200usize {
            let line = unit.repeat(n);
            for req in [format!("GET / HTTP/1.1\r\n{}\r\n\r\n", line), format!("GET / HTTP/1.1\r\nContent-Length: {}\r\n\r\n", line), format!("GET / HTTP/1.1\r\nExpect: {}\r\n\r\n", line)] {
                let _ = Request::try_from(req.as_bytes(), None);
                let (mut c, mut tx) = new_conn(None);
                let _ = drive(&mut c, &mut tx, &[req.clone().into_bytes()]);
            }
        }
    }
}

fn search_c03(budget: usize) {
    one_write_per_call_queued();
    search_c03_receives();
    search_c03_echo();
    one_write_per_call();
    let mut rng = Rng(0xE7037ED1A0B428DB);
    let mut tried = 0;
    std::panic::set_hook(Box::new(|_| {}));
    while tried < budget {
        let mut s = gen_stream(&mut rng, 40);
        for _ in 0..rng.below(4) { if !s.is_empty() { let i = rng.below(s.len()); s[i] = [0u8, b'\r', b'\n', 0xff, b' ', b':'][rng.below(6)]; } }
        let s2 = s.clone();
        let r = std::panic::catch_unwind(move || { let _ = Request::try_from(&s2, None); let _ = Request::try_from(&s2, Some(s2.len() + 1)); });
        if r.is_err() { found("C03", format!("Request::try_from({})", esc(&s)), "panic".into(), "Ok or Err".into()); }
        let ms = [1usize, 7, 1024][rng.below(3)];
        let segs = segment(&mut rng, &s, ms, true);
        let segs2 = segs.clone();
        let r = std::panic::catch_unwind(move || {
            let (mut c, mut tx) = new_conn(Some(40));
            let _ = drive(&mut c, &mut tx, &segs2);
            // keep using it after the error
            let _ = drive(&mut c, &mut tx, &segs2);
        });
        if r.is_err() { found("C03", format!("reads: {}", show_segs(&segs)), "panic".into(), "Ok or Err".into()); }
        tried += 1;
    }
    println!("{{\"status\":\"not-found\",\"tried\":{}}}", tried);
}

fn search_c05(budget: usize) {
    let mut rng = Rng(0x8EBC6AF09C88C6E3);
    let codes = [StatusCode::Continue, StatusCode::OK, StatusCode::NoContent, StatusCode::BadRequest, StatusCode::Unauthorized, StatusCode::NotFound,
                 StatusCode::MethodNotAllowed, StatusCode::PayloadTooLarge, StatusCode::InternalServerError, StatusCode::NotImplemented, StatusCode::ServiceUnavailable];
    let nums = ["100", "200", "204", "400", "401", "404", "405", "413", "500", "501", "503"];
    let mut tried = 0;
    while tried < budget {
        let ci = rng.below(11);
        let v = if rng.chance(50) { Version::Http10 } else { Version::Http11 };
        let mut r = Response::new(v, codes[ci]);
        let mut calls = vec![];
        let mut body: Option<Vec<u8>> = None;
        let mut explicit_cl = false;
        let mut srv: Option<String> = None;
        let mut extra_allow = 0usize;
        if rng.chance(5) { let id = if rng.chance(50) { String::new() } else { "s".repeat(100 + rng.below(400)) }; r.set_server(&id); srv = Some(id); }
        if rng.chance(4) { extra_allow = 30 + rng.below(40); for _ in 0..extra_allow { r.allow_method(Method::Put); } }
        for _ in 0..rng.below(6) {
            match rng.below(6) {
                0 => { let b: Vec<u8> = (0..rng.below(50)).map(|_| [b'a', b'\r', b'\n', b'H'][rng.below(4)]).collect(); r.set_body(Body::new(b.clone())); body = Some(b); explicit_cl = true; calls.push("set_body"); }
                1 => { r.set_content_type(micro_http::MediaType::PlainText); calls.push("set_content_type"); }
                2 => { r.set_deprecation(); calls.push("set_deprecation"); }
                3 => { r.set_encoding(); calls.push("set_encoding"); }
                4 => { r.set_server("srv"); srv = Some("srv".to_string()); calls.push("set_server"); }
                _ => { r.allow_method(Method::Put); calls.push("allow_method"); }
            }
        }
        let mut out = vec![];
        let wr = r.write_all(&mut out);
        tried += 1;
        let desc = format!("Response::new({:?}, {}) {:?}{}{}", v, nums[ci], calls, srv.as_ref().map(|x| format!(" server id of {} bytes", x.len())).unwrap_or_default(), if extra_allow > 0 { format!(" + {} allow_method calls", extra_allow) } else { String::new() });
        if let Err(e) = wr { found("C05", desc, format!("write_all into a Vec failed: {}", e), "every response built through the public API serialises".into()); }
        // "the same bytes are produced however the sink splits the writes": a sink that accepts at most k bytes per write
        struct Short { k: usize, got: Vec<u8>, turn: usize }
        impl Write for Short {
            fn write(&mut self, b: &[u8]) -> std::io::Result<usize> {
                self.turn += 1;
                if self.turn % 5 == 0 { return Err(std::io::Error::from(std::io::ErrorKind::Interrupted)); }
                let n = b.len().min(self.k); self.got.extend_from_slice(&b[..n]); Ok(n)
            }
            fn flush(&mut self) -> std::io::Result<()> { Ok(()) }
        }
        let mut sink = Short { k: 1 + rng.below(7), got: vec![], turn: 0 };
        let k = sink.k;
        if r.write_all(&mut sink).is_err() || sink.got != out {
            found("C05", format!("{} written to a sink that accepts at most {} bytes per write (and is interrupted every 5th call)", desc, k), esc(&sink.got), format!("the same bytes as into a Vec: {}", esc(&out)));
        }
        let head_end = match out.windows(4).position(|w| w == b"\r\n\r\n") { Some(p) => p, None => found("C05", desc, esc(&out), "a header block terminated by CRLFCRLF".into()) };
        let head = String::from_utf8_lossy(&out[..head_end]).to_string();
        let mut lines = head.split("\r\n");
        let status = lines.next().unwrap_or("");
        let want_status = format!("HTTP/{} {} ", if v == Version::Http10 { "1.0" } else { "1.1" }, nums[ci]);
        if status != want_status { found("C05", desc, status.into(), want_status); }
        let cl: Option<usize> = head.split("\r\n").find_map(|l| l.strip_prefix("Content-Length: ").and_then(|x| x.parse().ok()));
        let want_cl = if explicit_cl { Some(body.as_ref().unwrap().len()) } else if ci == 0 || ci == 2 { None } else { Some(0) };
        if cl != want_cl { found("C05", desc, format!("Content-Length {:?}", cl), format!("{:?}", want_cl)); }
        // header lines, in order: Server, Connection: keep-alive, [Allow], [Deprecation], then ONLY when a length is present
        // Content-Type, Content-Length, [Accept-Encoding]
        let got_lines: Vec<&str> = head.split("\r\n").skip(1).collect();
        let mut want_lines: Vec<String> = vec![format!("Server: {}", srv.clone().unwrap_or_else(|| "Firecracker API".to_string())), "Connection: keep-alive".into()];
        let n_allow = calls.iter().filter(|c| **c == "allow_method").count() + extra_allow;
        if n_allow > 0 { want_lines.push(format!("Allow: {}", vec!["PUT"; n_allow].join(", "))); }
        if calls.contains(&"set_deprecation") { want_lines.push("Deprecation: true".into()); }
        if let Some(n) = want_cl {
            want_lines.push(format!("Content-Type: {}", if calls.contains(&"set_content_type") { "text/plain" } else { "application/json" }));
            want_lines.push(format!("Content-Length: {}", n));
            if calls.contains(&"set_encoding") { want_lines.push("Accept-Encoding: identity".into()); }
        }
        if got_lines.iter().map(|l| l.to_string()).collect::<Vec<_>>() != want_lines {
            found("C05", desc, format!("header lines {:?}", got_lines), format!("{:?}", want_lines));
        }
        let rest = &out[head_end + 4..];
        if rest != body.clone().unwrap_or_default().as_slice() { found("C05", desc, format!("body {}", esc(rest)), format!("{:?}", body.map(|b| esc(&b)))); }
    }
    println!("{{\"status\":\"not-found\",\"tried\":{}}}", tried);
}

fn search_c16(_budget: usize) {
    let mut tried = 0;
    let alphabet: Vec<u8> = b"GETPUACHgetpuach/1.0HTP \0\xc3".to_vec();
    let mut cur = vec![];
    fn rec(cur: &mut Vec<u8>, alphabet: &[u8], depth: usize, tried: &mut usize) {
        let m = Method::try_from(cur);
        let want = match &cur[..] { b"GET" | b"PUT" | b"PATCH" => true, _ => false };
        if m.is_ok() != want { found("C16", format!("Method::try_from({})", esc(cur)), format!("{:?}", m.is_ok()), format!("{}", want)); }
        let v = Version::try_from(cur);
        if v.is_ok() { found("C16", format!("Version::try_from({})", esc(cur)), "Ok".into(), "Err (length <= 5)".into()); }
        *tried += 1;
        if depth == 0 { return; }
        for &a in alphabet { cur.push(a); rec(cur, alphabet, depth - 1, tried); cur.pop(); }
    }
    rec(&mut cur, &alphabet, 4, &mut tried);
    // media types: exactly the two canonical spellings, modulo surrounding whitespace; every one-byte edit and case flip rejected
    for tok in [&b"text/plain"[..], b"application/json"] {
        let want_v = if tok == b"text/plain" { MediaType::PlainText } else { MediaType::ApplicationJson };
        for (l, r) in [("", ""), (" ", ""), ("", " "), ("\t ", " \t"), ("\u{a0}", "\u{2003}")] {
            let mut t = l.as_bytes().to_vec(); t.extend_from_slice(tok); t.extend_from_slice(r.as_bytes());
            tried += 1;
            if MediaType::try_from(&t).ok() != Some(want_v) { found("C16", format!("MediaType::try_from({})", esc(&t)), format!("{:?}", MediaType::try_from(&t).ok()), format!("{:?}", want_v)); }
        }
        for i in 0..tok.len() { for b in 0..=255u8 {
            let mut t = tok.to_vec(); if t[i] == b { continue; } t[i] = b;
            tried += 1;
            if MediaType::try_from(&t).is_ok() { found("C16", format!("MediaType::try_from({})", esc(&t)), "Ok".into(), "Err: not a canonical spelling".into()); }
        } }
        for extra in [&b"x"[..], b";", b"/", b"2"] { let mut t = tok.to_vec(); t.extend_from_slice(extra); tried += 1; if MediaType::try_from(&t).is_ok() { found("C16", format!("MediaType::try_from({})", esc(&t)), "Ok".into(), "Err".into()); } }
    }
    if MediaType::try_from(b"").is_ok() || MediaType::try_from(b" ").is_ok() { found("C16", "MediaType::try_from of an empty / blank value".into(), "Ok".into(), "Err".into()); }
    for tok in [&b"GET"[..], b"PUT", b"PATCH", b"HTTP/1.0", b"HTTP/1.1"] {
        for i in 0..tok.len() { for b in 0..=255u8 {
            let mut t = tok.to_vec(); if t[i] == b { continue; } t[i] = b;
            let ok = Method::try_from(&t).is_ok() || Version::try_from(&t).is_ok();
            let want = &t[..] == b"HTTP/1.0" || &t[..] == b"HTTP/1.1";
            tried += 1;
            if ok != want { found("C16", format!("try_from({})", esc(&t)), format!("{}", ok), format!("{}", want)); }
        } }
    }
    for m in [Method::Get, Method::Put, Method::Patch] { if Method::try_from(m.raw()) != Ok(m) || m.to_str().as_bytes() != m.raw() { found("C16", format!("{:?}", m), "round trip fails".into(), "identity".into()); } }
    for v in [Version::Http10, Version::Http11] { if Version::try_from(v.raw()) != Ok(v) { found("C16", format!("{:?}", v), "round trip fails".into(), "identity".into()); } }
    let codes = [(StatusCode::Continue, "100"), (StatusCode::OK, "200"), (StatusCode::NoContent, "204"), (StatusCode::BadRequest, "400"), (StatusCode::Unauthorized, "401"), (StatusCode::NotFound, "404"),
                 (StatusCode::MethodNotAllowed, "405"), (StatusCode::PayloadTooLarge, "413"), (StatusCode::InternalServerError, "500"), (StatusCode::NotImplemented, "501"), (StatusCode::ServiceUnavailable, "503")];
    for (c, n) in codes { if c.raw() != n.as_bytes() { found("C16", format!("StatusCode::{:?}.raw()", c), esc(c.raw()), n.into()); } }
    let ual: Vec<&str> = vec!["h", "t", "p", ":", "/", "a", ".", "%", "\u{e9}"];
    fn urec(cur: &mut String, ual: &[&str], depth: usize, tried: &mut usize) {
        let line = format!("GET {} HTTP/1.1\r\n\r\n", cur);
        if let Ok(r) = Request::try_from(line.as_bytes(), None) {
            let got = r.uri().get_abs_path().to_string();
            let want = abs_path(cur);
            *tried += 1;
            if got != want { found("C16", format!("get_abs_path of {}", cur), got, want); }
        }
        if depth == 0 { return; }
        for a in ual { let l = cur.len(); cur.push_str(a); urec(cur, ual, depth - 1, tried); cur.truncate(l); }
    }
    let mut s = String::new();
    urec(&mut s, &ual, 5, &mut tried);
    for pre in ["http://", "http:/", "/", "http://a"] { let mut s = pre.to_string(); urec(&mut s, &ual, 3, &mut tried); }
    println!("{{\"status\":\"not-found\",\"tried\":{}}}", tried);
}

// ---------------------------------------------------------------- C14: one-shot vs incremental
#[derive(Debug, Clone, PartialEq)]
struct Full { method: String, uri: String, version: String, cl: u32, expect: bool, chunked: bool, accept_json: bool, custom: Vec<(String, String)>, body: Option<Vec<u8>> }
fn full(r: &Request) -> Full {
    let mut custom: Vec<(String, String)> = r.headers.custom_entries().iter().map(|(k, v)| (k.clone(), v.clone())).collect();
    custom.sort();
    Full { method: format!("{:?}", r.method()), uri: r.uri().get_abs_path().to_string() + "|" + &format!("{:?}", r.uri()), version: format!("{:?}", r.http_version()),
           cl: r.headers.content_length(), expect: r.headers.expect(), chunked: r.headers.chunked(), accept_json: r.headers.accept() == MediaType::ApplicationJson,
           custom, body: r.body.as_ref().map(|b| b.raw().to_vec()) }
}
fn feed(slice: &[u8], extra: &[u8]) -> (Vec<Full>, Option<String>) {
    let (mut c, mut tx) = new_conn(Some(51200));
    let mut out = vec![];
    let mut err = None;
    for piece in [slice, extra] {
        for chunk in piece.chunks(1024) {
            tx.write_all(chunk).unwrap();
            loop {
                match c.try_read() {
                    Ok(()) => { while let Some(r) = c.pop_parsed_request() { out.push(full(&r)); } }
                    Err(e) => { let k = err_kind(&e); if k != "StreamReadError" { while let Some(r) = c.pop_parsed_request() { out.push(full(&r)); } err = Some(k); } break; }
                }
            }
            if err.is_some() { return (out, err); }
        }
    }
    (out, err)
}
fn search_c14(budget: usize) {
    let mut rng = Rng(0x14c0ffee);
    let mut tried = 0usize;
    let probe = b"PUT /probe HTTP/1.1\r\nContent-Length: 2\r\n\r\nzz";
    let extras: Vec<&[u8]> = vec![b"X-Note: first\nX-Other: second\r\n", b"X-A: 1\r\nX-A: 2\r\n", b"Accept: application/json\r\n", b"Transfer-Encoding: chunked\r\n", b"Content-Type: text/html\r\n", b"A:b\nContent-Length: 3\r\n", b"X-No-Colon-Here\r\n", b"Expect: 103-checkpoint\r\n", b"X-Tag: a\xffb\r\n"];
    while tried < budget.max(3000) {
        let mut slice = gen_request(&mut rng, 1500);
        // sometimes splice an extra header line in front of the blank line, add or remove trailing bytes, or corrupt a byte
        if rng.chance(40) { if let Some(p) = slice.windows(4).position(|w| w == b"\r\n\r\n") { let e = extras[rng.below(extras.len())]; let mut v = slice[..p + 2].to_vec(); v.extend_from_slice(e); v.extend_from_slice(&slice[p + 2..]); slice = v; } }
        match rng.below(10) { 0 => slice.extend_from_slice(b"xy"), 1 => { let n = slice.len(); if n > 1 { slice.truncate(n - 1); } }, 2 => { let i = rng.below(slice.len()); slice[i] = b"\r\n :xG"[rng.below(6)]; }, 3 => { let mut v = b"\r\n".to_vec(); v.extend_from_slice(&slice); slice = v; }, _ => {} }
        tried += 1;
        let one = Request::try_from(&slice, None);
        // the caller's maximum: rejected iff the length reaches it
        let lim_ok = Request::try_from(&slice, Some(slice.len() + 1)).is_ok();
        let lim_eq = Request::try_from(&slice, Some(slice.len())).is_ok();
        if lim_ok != one.is_ok() || lim_eq { found("C14", format!("Request::try_from({}, max_len)", esc(&slice)), format!("max=len+1: {}, max=len: {}", lim_ok, lim_eq), format!("max=len+1: {}, max=len: false", one.is_ok())); }
        let (got, err) = feed(&slice, probe);
        // within the line limit: every CRLF-terminated line of the head (request line + header block) is <= 1024 bytes with its CRLF
        let head_len = slice.windows(4).position(|w| w == b"\r\n\r\n").map(|p| p + 2).unwrap_or(slice.len());
        let line_ok = { let mut ok = true; let mut st = 0usize; let h = &slice[..head_len]; let mut i = 0; while i + 1 < h.len() { if h[i] == b'\r' && h[i + 1] == b'\n' { if i + 2 - st > 1024 { ok = false; } st = i + 2; i += 2; } else { i += 1; } } ok && h.len() - st < 1024 };
        if let Ok(r) = &one {
            let f = full(r);
            // "within the line and payload limits": the specification parser reports no (limit) error before the first request
            if line_ok && f.cl as usize <= 51200 && (got.is_empty() || got[0] != f) {
                found("C14", format!("slice {}", esc(&slice)), format!("connection: first request {:?} error {:?}", got.get(0), err), format!("what Request::try_from accepted: {:?}", f));
            }
        } else {
            // connection turned the slice into exactly one request with nothing left over (the probe comes out intact as the second)
            if err.is_none() && got.len() == 2 && got[1].uri.starts_with("/probe") && got[1].body.as_deref() == Some(&b"zz"[..]) {
                let get_with_body = got[0].method == "Get" && got[0].cl > 0;
                if !get_with_body {
                    found("C14", format!("slice {}", esc(&slice)), format!("Request::try_from rejects it: {:?}", one.as_ref().err()), format!("accepted like the connection, which delivered exactly {:?}", got[0]));
                }
            }
        }
    }
    println!("{{\"status\":\"not-found\",\"tried\":{}}}", tried);
}

// ---------------------------------------------------------------- C15: header rules
// reference implementation written from the property statement (independent of src/common/headers.rs)
#[derive(Clone, Debug, PartialEq)]
struct RefHeaders { content_length: u32, expect: bool, chunked: bool, accept_json: bool, custom: std::collections::BTreeMap<String, String> }
#[derive(Clone, Debug, PartialEq)]
enum RefFault { Ignored, Fatal(&'static str) }

fn ref_trim(s: &str) -> &str { s.trim_matches(|c: char| c.is_whitespace()) }
fn ref_media(v: &str) -> Option<bool> { match ref_trim(v) { "text/plain" if !v.is_empty() => Some(false), "application/json" if !v.is_empty() => Some(true), _ => None } }
fn ref_encoding_ok(v: &str) -> bool {
    if v.is_empty() { return false; }
    for item in v.split(',') {
        let t = ref_trim(item);
        if t == "identity;q=0" { return false; }
        if t == "*;q=0" && !v.contains("identity") { return false; }
    }
    true
}
fn ref_line(h: &mut RefHeaders, line: &[u8]) -> Result<(), RefFault> {
    let text = match std::str::from_utf8(line) { Ok(t) => t, Err(_) => return Err(RefFault::Fatal("InvalidUtf8String")) };
    let colon = match text.find(':') { Some(i) => i, None => return Err(RefFault::Fatal("InvalidFormat")) };
    let (name, value) = (&text[..colon], &text[colon + 1..]);
    let lname: String = ref_trim(&name.chars().map(|c| c.to_ascii_lowercase()).collect::<String>()).to_string();
    let v = ref_trim(value);
    match lname.as_str() {
        "content-length" => match v.parse::<u32>() { Ok(n) => { h.content_length = n; Ok(()) } Err(_) => Err(RefFault::Fatal("InvalidValue")) },
        "content-type" => if ref_media(v).is_some() { Ok(()) } else { Err(RefFault::Ignored) },
        "accept" => match ref_media(v) { Some(j) => { h.accept_json = j; Ok(()) } None => Err(RefFault::Ignored) },
        "transfer-encoding" => match v { "chunked" => { h.chunked = true; Ok(()) } "identity" => Ok(()), _ => Err(RefFault::Ignored) },
        "expect" => if v == "100-continue" { h.expect = true; Ok(()) } else { Err(RefFault::Ignored) },
        "server" => Ok(()),
        "accept-encoding" => if ref_encoding_ok(v) { Ok(()) } else if v.is_empty() { Err(RefFault::Fatal("InvalidRequest")) } else { Err(RefFault::Fatal("InvalidValue")) },
        _ => { h.custom.insert(ref_trim(name).to_string(), v.to_string()); Ok(()) }
    }
}
fn fault_of(e: &RequestError) -> RefFault {
    match e {
        RequestError::HeaderError(HttpHeaderError::UnsupportedValue(_, _)) => RefFault::Ignored,
        RequestError::HeaderError(HttpHeaderError::InvalidFormat(_)) => RefFault::Fatal("InvalidFormat"),
        RequestError::HeaderError(HttpHeaderError::InvalidUtf8String(_)) => RefFault::Fatal("InvalidUtf8String"),
        RequestError::HeaderError(HttpHeaderError::InvalidValue(_, _)) => RefFault::Fatal("InvalidValue"),
        RequestError::InvalidRequest => RefFault::Fatal("InvalidRequest"),
        _ => RefFault::Fatal("other"),
    }
}
fn view(h: &Headers) -> RefHeaders {
    RefHeaders { content_length: h.content_length(), expect: h.expect(), chunked: h.chunked(), accept_json: h.accept() == MediaType::ApplicationJson,
                 custom: h.custom_entries().iter().map(|(k, v)| (k.clone(), v.clone())).collect() }
}

fn search_c15(budget: usize) {
    let mut rng = Rng(0x15c0ffee);
    let names = ["Content-Length", "Content-Type", "Expect", "Transfer-Encoding", "Server", "Accept", "Accept-Encoding", "X-Custom", "Foo", "content length", ""];
    let pads = ["", " ", "\t", "  ", "\u{a0}", "\u{2003}", " \t "];
    let values: Vec<&str> = vec!["0", "5", "42", "4294967295", "4294967296", "-1", "+7", "1e3", "", "abc", "text/plain", "application/json", "Application/Json", "text/html",
        "chunked", "identity", "gzip", "Chunked", "100-continue", "100-Continue", "103-checkpoint", "identity;q=0", "*;q=0", "gzip, identity;q=0", "gzip, *;q=0",
        "identity, *;q=0", "identity;q=0.5, *;q=0", "gzip, identity;q=1, *;q=0", "*;q=0, identity", "*;q=0,identity;q=0", "deflate", "gzip,deflate", " identity;q=0 ", "a:b", "x y", "\u{e9}", "first\nX-Other: second", "1\nContent-Length: 7", "v\r"];
    let mut tried = 0usize;
    let mk_line = |rng: &mut Rng| -> Vec<u8> {
        let mut name: String = names[rng.below(names.len())].to_string();
        // random letter-case pattern
        name = name.chars().map(|c| if rng.chance(40) { if c.is_ascii_lowercase() { c.to_ascii_uppercase() } else { c.to_ascii_lowercase() } } else { c }).collect();
        let v = values[rng.below(values.len())];
        let mut line = format!("{}{}{}", pads[rng.below(pads.len())], name, pads[rng.below(pads.len())]);
        let colons = match rng.below(10) { 0 => 0, 1 => 2, _ => 1 };
        if colons >= 1 { line.push(':'); line.push_str(pads[rng.below(pads.len())]); line.push_str(v); line.push_str(pads[rng.below(pads.len())]); }
        if colons == 2 { line.push_str(": 2"); }
        let mut b = line.into_bytes();
        if rng.chance(3) { b.push(0xff); }
        b
    };
    for _ in 0..budget.max(2000) {
        // single lines against the rules, on a header set with history
        let n = 1 + rng.below(6);
        let mut real = Headers::default();
        let mut model = RefHeaders { content_length: 0, expect: false, chunked: false, accept_json: false, custom: Default::default() };
        let mut block: Vec<u8> = vec![];
        let mut lines: Vec<Vec<u8>> = vec![];
        let mut expected_block: Result<RefHeaders, &'static str> = Err("");
        let mut bm = model.clone();
        let mut block_done = false;
        for _ in 0..n {
            let line = mk_line(&mut rng);
            let got = real.parse_header_line(&line);
            let want = ref_line(&mut model, &line);
            tried += 1;
            let g = got.as_ref().map(|_| ()).map_err(fault_of);
            if g != want || view(&real) != model {
                found("C15", format!("parse_header_line({}) after {} earlier lines", esc(&line), lines.len()),
                      format!("{:?}, headers {:?}", g, view(&real)), format!("{:?}, headers {:?}", want, model));
            }
            // block model (the same lines, CRLF-joined, stop at the first fatal fault or empty line)
            if !block_done {
                if line.is_empty() { expected_block = Ok(bm.clone()); block_done = true; }
                else if line.windows(2).any(|w| w == b"\r\n") { /* cannot happen with this generator */ }
                else { match ref_line(&mut bm, &line) { Ok(()) | Err(RefFault::Ignored) => {}, Err(RefFault::Fatal(k)) => { expected_block = Err(k); block_done = true; } } }
            }
            block.extend_from_slice(&line); block.extend_from_slice(b"\r\n");
            lines.push(line);
        }
        if !block_done { expected_block = Ok(bm.clone()); }
        block.extend_from_slice(b"\r\n");
        if std::str::from_utf8(&block).is_err() { expected_block = Err("InvalidRequest"); }
        let gb = Headers::try_from(&block);
        let g = match &gb { Ok(h) => Ok(view(h)), Err(e) => Err(match fault_of(e) { RefFault::Fatal(k) => k, RefFault::Ignored => "ignored-fault-returned" }) };
        if g != expected_block {
            found("C15", format!("Headers::try_from({})", esc(&block)), format!("{:?}", g), format!("{:?}", expected_block));
        }
    }
    // media types and encodings directly
    for v in values.iter() {
        for l in pads.iter() { for r in pads.iter() {
            let s = format!("{}{}{}", l, v, r);
            tried += 1;
            let gm = MediaType::try_from(s.as_bytes()).ok().map(|m| m == MediaType::ApplicationJson);
            let wm = if s.is_empty() { None } else { ref_media(&s) };
            if gm != wm { found("C15", format!("MediaType::try_from({})", esc(s.as_bytes())), format!("{:?}", gm), format!("{:?}", wm)); }
            let ge = Encoding::try_from(s.as_bytes()).is_ok();
            if ge != ref_encoding_ok(&s) { found("C15", format!("Encoding::try_from({})", esc(s.as_bytes())), format!("{}", ge), format!("{}", ref_encoding_ok(&s))); }
        } }
    }
    println!("{{\"status\":\"not-found\",\"tried\":{}}}", tried);
}

// ---------------------------------------------------------------- C17: router
struct CountingHandler { id: usize, calls: std::sync::Arc<std::sync::Mutex<Vec<usize>>> }
impl EndpointHandler<u8> for CountingHandler {
    fn handle_request(&self, _req: &Request, _arg: &u8) -> Response {
        self.calls.lock().unwrap().push(self.id);
        let mut r = Response::new(Version::Http11, StatusCode::OK);
        r.set_body(Body::new(format!("handler-{}", self.id)));
        r.set_server("set-by-handler");
        if self.id % 2 == 0 { r.set_content_type(MediaType::PlainText); }
        r
    }
}

fn search_c17(budget: usize) {
    // route tables over a small path alphabet (paths that are prefixes of one another, empty prefix, ':' in paths),
    // every registration order with duplicates; then every request over the alphabet in origin- and absolute-form
    let methods = [Method::Get, Method::Put, Method::Patch];
    let paths = ["/", "/a", "/a/b", "/a:b", "/T:/a", "/b", "", "a", ":", "/a/", "/a://b/c", "/c", "/x://"];
    let prefixes = ["", "/api", "/a", ":"];
    let mut rng = Rng(0x17c0ffee);
    let mut tried = 0usize;
    for round in 0..budget.max(40) / 4 {
        let prefix = prefixes[if round < prefixes.len() { round } else { rng.below(prefixes.len()) }];
        let calls = std::sync::Arc::new(std::sync::Mutex::new(Vec::new()));
        let mut router: HttpRoutes<u8> = HttpRoutes::new("SRV-ID".to_string(), prefix.to_string());
        let mut table: Vec<(Method, String, usize)> = vec![];  // reference: first registration wins
        let n = 1 + rng.below(8);
        let mut script = String::new();
        for id in 0..n {
            let m = methods[rng.below(3)];
            let p = paths[rng.below(paths.len())];
            let full = format!("{}{}", prefix, p);
            let r = router.add_route(m, p.to_string(), Box::new(CountingHandler { id, calls: calls.clone() }));
            let dup = table.iter().any(|(tm, tp, _)| *tm == m && *tp == full);
            script.push_str(&format!("add_route({:?}, {:?}) ", m, p));
            if r.is_ok() == dup {
                found("C17", format!("prefix {:?}: {}", prefix, script), format!("add_route -> {}", if r.is_ok() { "Ok" } else { "Err" }),
                      if dup { "Err (already registered)".into() } else { "Ok".into() });
            }
            if !dup { table.push((m, full, id)); }
        }
        // requests
        for m in methods {
            for p in paths {
                for form in 0..3 {
                    let target = format!("{}{}", prefix, p);
                    let uri = match form { 0 => target.clone(), 1 => format!("http://localhost{}", target), _ => format!("http://h:80{}", target) };
                    if uri.is_empty() || uri.contains(' ') { continue; }
                    let line = format!("{} {} HTTP/1.1\r\n\r\n", std::str::from_utf8(m.raw()).unwrap(), uri);
                    let req = match Request::try_from(line.as_bytes(), None) { Ok(r) => r, Err(_) => continue };
                    let abs = abs_path(&uri);
                    calls.lock().unwrap().clear();
                    let resp = router.handle_http_request(&req, &0u8);
                    tried += 1;
                    let want = table.iter().find(|(tm, tp, _)| *tm == m && *tp == abs).map(|t| t.2);
                    let got = calls.lock().unwrap().clone();
                    let desc = format!("prefix {:?}: {}; then request {}", prefix, script, esc(line.as_bytes()));
                    match want {
                        Some(id) => {
                            if got != vec![id] { found("C17", desc, format!("handlers invoked: {:?}", got), format!("exactly [{}] (registered for {:?} {})", id, m, abs)); }
                            if resp.status() != StatusCode::OK || resp.body().map(|b| b.raw().to_vec()) != Some(format!("handler-{}", id).into_bytes()) {
                                found("C17", desc, format!("status {:?} body {:?}", resp.status(), resp.body().map(|b| esc(b.raw()))), format!("the response of handler {}", id));
                            }
                        }
                        None => {
                            if !got.is_empty() { found("C17", desc, format!("handlers invoked: {:?}", got), "none (no route for this method and path)".into()); }
                            if resp.status() != StatusCode::NotFound { found("C17", desc, format!("status {:?}", resp.status()), "404 NotFound".into()); }
                        }
                    }
                    let mut out = vec![];
                    resp.write_all(&mut out).unwrap();
                    let text = String::from_utf8_lossy(&out).to_string();
                    if !text.contains("\r\nServer: SRV-ID\r\n") { found("C17", desc, esc(&out), "Server: SRV-ID".into()); }
                    if !text.contains("\r\nContent-Type: application/json\r\n") { found("C17", desc, esc(&out), "Content-Type: application/json".into()); }
                }
            }
        }
    }
    println!("{{\"status\":\"not-found\",\"tried\":{}}}", tried);
}

fn ready(server: &HttpServer) -> bool {
    let mut p = libc::pollfd { fd: server.epoll().as_raw_fd(), events: libc::POLLIN, revents: 0 };
    unsafe { libc::poll(&mut p, 1, 100) > 0 }
}

// ---------------------------------------------------------------- server-level scenarios (C04 limits, C07 batch order)
fn poll_all(server: &mut HttpServer, rounds: usize) -> Vec<micro_http::ServerRequest> {
    let mut v = vec![];
    for _ in 0..rounds { if ready(server) { if let Ok(r) = server.requests() { v.extend(r); } } }
    v
}
/// poll the server (only when its epoll fd is ready) until `done` says so or `max_ms` elapsed; returns false on timeout
fn poll_until(server: &mut HttpServer, reqs: &mut Vec<micro_http::ServerRequest>, max_ms: u64, mut done: impl FnMut(&Vec<micro_http::ServerRequest>) -> bool) -> bool {
    let t0 = std::time::Instant::now();
    loop {
        if done(reqs) { return true; }
        if t0.elapsed().as_millis() as u64 > max_ms { return false; }
        if ready(server) { if let Ok(r) = server.requests() { reqs.extend(r); } }
    }
}
fn peek_some(s: &mut UnixStream, acc: &mut Vec<u8>) {
    s.set_nonblocking(true).unwrap();
    let mut b = [0u8; 8192];
    while let Ok(n) = s.read(&mut b) { if n == 0 { break; } acc.extend_from_slice(&b[..n]); }
    s.set_nonblocking(false).unwrap();
}
fn read_some(s: &mut UnixStream) -> Vec<u8> {
    s.set_nonblocking(true).unwrap();
    std::thread::sleep(std::time::Duration::from_millis(30));
    let mut got = vec![];
    let mut b = [0u8; 8192];
    while let Ok(n) = s.read(&mut b) { if n == 0 { break; } got.extend_from_slice(&b[..n]); }
    s.set_nonblocking(false).unwrap();
    got
}
fn search_server_limits() {
    // C04: "a server applies to each connection the limit configured when the client connected and answers the
    // violation with a 400 that reports both numbers"
    let mut tried = 0;
    for (l_connect, l_later, n) in [(100usize, 100usize, 100usize), (100, 100, 101), (0, 0, 1), (10, 100, 50), (100, 10, 50), (51200, 51200, 51201), (5, 5, 5), (60000, 60000, 55000), (60000, 60000, 60001)] {
        let path = format!("/tmp/wit_C04_{}_{}.sock", std::process::id(), tried);
        let _ = std::fs::remove_file(&path);
        let mut server = HttpServer::new(&path).unwrap();
        server.set_payload_max_size(l_connect);
        server.start_server().unwrap();
        let mut c = UnixStream::connect(&path).unwrap();
        let _ = poll_all(&mut server, 3);
        server.set_payload_max_size(l_later);
        let body = vec![b'x'; n];
        let mut req = format!("PUT /limit HTTP/1.1\r\nContent-Length: {}\r\n\r\n", n).into_bytes();
        req.extend_from_slice(&body);
        let _ = c.write_all(&req);
        // wait (generously: the machine may be busy) until the request is yielded or the client has an answer
        let mut reqs = vec![];
        let mut wire = vec![];
        let settled = poll_until(&mut server, &mut reqs, 10_000, |r| { peek_some(&mut c, &mut wire); !r.is_empty() || wire.windows(4).any(|w| w == b"\r\n\r\n") });
        let _ = poll_all(&mut server, 3);
        std::thread::sleep(std::time::Duration::from_millis(30));
        peek_some(&mut c, &mut wire);
        let text = String::from_utf8_lossy(&wire).to_string();
        let _ = std::fs::remove_file(&path);
        tried += 1;
        if !settled { continue; }   // inconclusive on a stalled machine: never a finding
        let desc = format!("server limit {} when the client connects{}; PUT with Content-Length {}", l_connect, if l_later != l_connect { format!(", changed to {} afterwards", l_later) } else { String::new() }, n);
        if n > l_connect {
            if !reqs.is_empty() { found("C04", desc, format!("request yielded with a body of {} bytes", n), format!("400 reporting ({}, {})", l_connect, n)); }
            if !text.starts_with("HTTP/1.1 400") || !text.contains(&l_connect.to_string()) || !text.contains(&n.to_string()) {
                found("C04", desc, esc(&wire), format!("a 400 that reports {} and {}", l_connect, n));
            }
        } else {
            if reqs.len() != 1 || reqs[0].request.body.as_ref().map(|b| b.len()) != Some(n) {
                found("C04", desc, format!("{} requests yielded; client received {}", reqs.len(), esc(&wire)), "the request, delivered with its body".into());
            }
        }
    }
}
fn search_server_batch() {
    // C07: "at most once each and in the order the application supplied them", also through enqueue_responses
    let path = format!("/tmp/wit_C07b_{}.sock", std::process::id());
    let _ = std::fs::remove_file(&path);
    let mut server = HttpServer::new(&path).unwrap();
    server.start_server().unwrap();
    let mut a = UnixStream::connect(&path).unwrap();
    let mut b = UnixStream::connect(&path).unwrap();
    let _ = poll_all(&mut server, 3);
    let _ = a.write_all(b"GET /a0 HTTP/1.1\r\n\r\nGET /a1 HTTP/1.1\r\n\r\nGET /a2 HTTP/1.1\r\n\r\n");
    let _ = b.write_all(b"GET /b0 HTTP/1.1\r\n\r\n");
    let mut reqs = vec![];
    if !poll_until(&mut server, &mut reqs, 10_000, |r| r.len() >= 4) || reqs.len() != 4 { let _ = std::fs::remove_file(&path); return; }
    let mut batch = vec![];
    for r in reqs {
        let tag = r.request.uri().get_abs_path().to_string();
        batch.push(r.process(|_| { let mut x = Response::new(Version::Http11, StatusCode::OK); x.set_body(Body::new(format!("answer-to-{}", tag))); x }));
    }
    let _ = server.enqueue_responses(batch);
    let (mut wa, mut wb) = (vec![], vec![]);
    let mut none = vec![];
    let count = |w: &Vec<u8>| String::from_utf8_lossy(w).matches("answer-to-").count();
    let _ = poll_until(&mut server, &mut none, 10_000, |_| { peek_some(&mut a, &mut wa); peek_some(&mut b, &mut wb); count(&wa) + count(&wb) >= 4 });
    let _ = poll_all(&mut server, 3);
    std::thread::sleep(std::time::Duration::from_millis(30));
    peek_some(&mut a, &mut wa); peek_some(&mut b, &mut wb);
    let ta = String::from_utf8_lossy(&wa).to_string();
    let tb = String::from_utf8_lossy(&wb).to_string();
    let _ = std::fs::remove_file(&path);
    let pos = |t: &str, k: &str| t.find(k);
    let order_ok = match (pos(&ta, "answer-to-/a0"), pos(&ta, "answer-to-/a1"), pos(&ta, "answer-to-/a2")) { (Some(x), Some(y), Some(z)) => x < y && y < z, _ => false };
    if !order_ok || ta.contains("/b0") || !tb.contains("answer-to-/b0") || tb.contains("answer-to-/a") || ta.matches("answer-to-").count() != 3 {
        found("C07", "client A pipelines /a0 /a1 /a2, client B sends /b0; the application answers all four in one enqueue_responses batch, in the order yielded".into(),
              format!("A received {} ; B received {}", esc(ta.as_bytes()), esc(tb.as_bytes())), "A: answers to /a0, /a1, /a2 in that order, once each; B: the answer to /b0".into());
    }
}

// ---------------------------------------------------------------- further fixed server histories (bounded stand-in for HttpServer::requests)
struct Srv { server: HttpServer, path: String, outstanding: Vec<micro_http::ServerRequest> }
impl Srv {
    fn new(tag: &str) -> Srv {
        let path = format!("/tmp/wit_{}_{}.sock", tag, std::process::id());
        let _ = std::fs::remove_file(&path);
        let mut server = HttpServer::new(&path).unwrap();
        server.start_server().unwrap();
        Srv { server, path, outstanding: vec![] }
    }
    /// poll while the epoll fd is ready (bounded: a level-triggered event that never goes away must not hang the search)
    fn pump(&mut self, prop: &str, what: &str) {
        for _ in 0..40 {
            let mut p = libc::pollfd { fd: self.server.epoll().as_raw_fd(), events: libc::POLLIN, revents: 0 };
            if unsafe { libc::poll(&mut p, 1, 20) } <= 0 { break; }
            let server = &mut self.server;
            match std::panic::catch_unwind(std::panic::AssertUnwindSafe(|| server.requests())) {
                Ok(Ok(v)) => self.outstanding.extend(v),
                Ok(Err(e)) => { let _ = std::fs::remove_file(&self.path); found(prop, what.to_string(), format!("HttpServer::requests() = Err({})", e), "Ok(..): polling keeps returning normally".into()); }
                Err(_) => { let _ = std::fs::remove_file(&self.path); found(prop, what.to_string(), "HttpServer::requests() panicked".into(), "Ok(..): polling keeps returning normally".into()); }
            }
        }
    }
    fn connect(&mut self, prop: &str, what: &str) -> UnixStream {
        let c = UnixStream::connect(&self.path).unwrap();
        self.pump(prop, what);
        c
    }
    fn answer(&mut self, uri: &str) -> bool {
        if let Some(i) = self.outstanding.iter().position(|r| r.request.uri().get_abs_path() == uri) {
            let r = self.outstanding.remove(i);
            let body = format!("echo:{}", uri);
            let _ = self.server.respond(r.process(|_| { let mut x = Response::new(Version::Http11, StatusCode::OK); x.set_body(Body::new(body.clone())); x }));
            true
        } else { false }
    }
    fn done(&self) { let _ = std::fs::remove_file(&self.path); }
}
fn round_trip(s: &mut Srv, prop: &str, what: &str, uri: &str) -> Result<(), String> {
    let mut c = s.connect(prop, what);
    // a refused client (503 + close) may already be disconnected: the write error is part of the observation, not a crash
    let wr = c.write_all(format!("GET {} HTTP/1.1\r\n\r\n", uri).as_bytes());
    s.pump(prop, what);
    if !s.answer(uri) {
        if wr.is_err() { let mut w = vec![]; peek_some(&mut c, &mut w); return Err(format!("the server had already closed the new connection ({:?}); the client received {}", wr.err(), esc(&w))); }
        let mut w = vec![]; peek_some(&mut c, &mut w);
        return Err(format!("request {} was not yielded; the client received {}", uri, esc(&w)));
    }
    s.pump(prop, what);
    let mut w = vec![]; peek_some(&mut c, &mut w);
    if !String::from_utf8_lossy(&w).contains(&format!("echo:{}", uri)) { return Err(format!("the client of {} received {}", uri, esc(&w))); }
    Ok(())
}
fn search_server_blocking() {
    // C09: a client that never reads its (large) response must not make polling block or fail, and another client is still served.
    // The history runs in a thread so that a requests() call that never returns is a finding, not a hang of the search.
    let what = "client A asks for a response larger than the socket buffer and never reads it; the application answers; the server is polled; client B does a round trip";
    let (txd, rxd) = std::sync::mpsc::channel::<Result<(), String>>();
    std::thread::spawn(move || {
        let mut s = Srv::new("C09h5");
        let mut a = s.connect("C09", what);
        let _ = a.write_all(b"GET /big HTTP/1.1\r\n\r\n");
        s.pump("C09", what);
        if let Some(i) = s.outstanding.iter().position(|r| r.request.uri().get_abs_path() == "/big") {
            let r = s.outstanding.remove(i);
            let _ = s.server.respond(r.process(|_| { let mut x = Response::new(Version::Http11, StatusCode::OK); x.set_body(Body::new(vec![b'x'; 4 << 20])); x }));
        } else { let _ = txd.send(Ok(())); s.done(); return; }
        s.pump("C09", what);
        let r = round_trip(&mut s, "C09", what, "/witness-b");
        s.done();
        drop(a);
        let _ = txd.send(r);
    });
    match rxd.recv_timeout(std::time::Duration::from_secs(20)) {
        Ok(Ok(())) => {}
        Ok(Err(e)) => found("C09", what.into(), e, "client B is served".into()),
        Err(_) => { let _ = std::fs::remove_file(format!("/tmp/wit_C09h5_{}.sock", std::process::id())); found("C09", what.into(), "HttpServer::requests() did not return within 20 s (blocked in a write)".into(), "polling keeps returning normally".into()) }
    }
}

fn search_server_garbage() {
    // C09 "sending garbage": malformed header lines made of multi-byte characters, of many lengths (the 400 body echoes them)
    let what = "clients send a request line followed by a malformed header line of n multi-byte characters, n = 1..300 step 7";
    let mut s = Srv::new("C09h11");
    for unit in ["\u{e9}", "\u{20ac}", "x\u{1f600}"] {
        let mut n = 1;
        while n < 300 {
            let mut c = s.connect("C09", what);
            let _ = c.write_all(format!("GET / HTTP/1.1\r\n{}\r\n\r\n", unit.repeat(n)).as_bytes());
            s.pump("C09", what);
            drop(c);
            s.pump("C09", what);
            n += 7;
        }
    }
    if let Err(e) = round_trip(&mut s, "C09", what, "/after-garbage") { s.done(); found("C09", what.into(), e, "a later client is served".into()); }
    s.done();
}
fn search_server_flush() {
    // flush_outgoing_writes must come back although a client does not read its large response
    let what = "client A asks for a response larger than the socket buffer and never reads it; the application answers and calls flush_outgoing_writes()";
    let (txd, rxd) = std::sync::mpsc::channel::<()>();
    std::thread::spawn(move || {
        let mut s = Srv::new("C09h12");
        let mut a = s.connect("C09", what);
        let _ = a.write_all(b"GET /big HTTP/1.1\r\n\r\n");
        s.pump("C09", what);
        if let Some(i) = s.outstanding.iter().position(|r| r.request.uri().get_abs_path() == "/big") {
            let r = s.outstanding.remove(i);
            let _ = s.server.respond(r.process(|_| { let mut x = Response::new(Version::Http11, StatusCode::OK); x.set_body(Body::new(vec![b'x'; 4 << 20])); x }));
            s.server.flush_outgoing_writes();
        }
        s.done();
        drop(a);
        let _ = txd.send(());
    });
    if rxd.recv_timeout(std::time::Duration::from_secs(20)).is_err() {
        let _ = std::fs::remove_file(format!("/tmp/wit_C09h12_{}.sock", std::process::id()));
        found("C09", what.into(), "flush_outgoing_writes() did not return within 20 s".into(), "it returns: a client that does not read cannot wedge the server thread".into());
    }
}

fn search_server_histories(prop: &str) {
    if prop == "C09" { search_server_blocking(); search_server_flush(); search_server_garbage(); }
    if prop == "C07" {
        // H10: requests discarded in front of a malformed one were never counted as in flight: the connection must still wait
        //      for the answer to the request that IS in flight before its descriptor number can be reused
        {
            let what = "client 1: /c1/r0 yielded; then one write with a valid /c1/r1 followed by garbage (400); client 1 closes; client 2 connects; /c1/r0 answered late";
            let mut s = Srv::new("C07h10");
            let mut c1 = s.connect(prop, what);
            let _ = c1.write_all(b"GET /c1/r0 HTTP/1.1\r\n\r\n");
            s.pump(prop, what);
            if s.outstanding.len() == 1 {
                let _ = c1.write_all(b"GET /c1/r1 HTTP/1.1\r\n\r\nBAD\r\n\r\n");
                s.pump(prop, what);
                let mut w = vec![]; peek_some(&mut c1, &mut w);
                drop(c1);
                s.pump(prop, what);
                let mut c2 = s.connect(prop, what);
                s.answer("/c1/r0");
                s.pump(prop, what);
                let mut w2 = vec![]; peek_some(&mut c2, &mut w2);
                if String::from_utf8_lossy(&w2).contains("echo:/c1/") { s.done(); found(prop, what.into(), format!("client 2, which sent nothing, received {}", esc(&w2)), "nothing: the late answer is dropped".into()); }
            }
            s.done();
        }
        // H8: a response larger than the socket buffer reaches a slow reader byte for byte, once
        {
            let what = "a client asks for /large; the application answers with a 1 MiB body; the client reads slowly while the server is polled";
            let mut s = Srv::new("C07h8");
            let mut c = s.connect(prop, what);
            let _ = c.write_all(b"GET /large HTTP/1.1\r\n\r\n");
            s.pump(prop, what);
            if let Some(i) = s.outstanding.iter().position(|r| r.request.uri().get_abs_path() == "/large") {
                let r = s.outstanding.remove(i);
                let body: Vec<u8> = (0..(1usize << 20)).map(|k| b'a' + (k % 23) as u8).collect();
                let mut expect = vec![];
                { let mut x = Response::new(Version::Http11, StatusCode::OK); x.set_body(Body::new(body.clone())); x.write_all(&mut expect).unwrap(); }
                let _ = s.server.respond(r.process(|_| { let mut x = Response::new(Version::Http11, StatusCode::OK); x.set_body(Body::new(body.clone())); x }));
                let mut got = vec![];
                let t0 = std::time::Instant::now();
                while got.len() < expect.len() && t0.elapsed().as_secs() < 30 {
                    s.pump(prop, what);
                    let before = got.len();
                    c.set_nonblocking(true).unwrap();
                    let mut b = [0u8; 3000];
                    if let Ok(n) = c.read(&mut b) { got.extend_from_slice(&b[..n]); }
                    if got.len() == before && !ready(&s.server) { std::thread::sleep(std::time::Duration::from_millis(1)); }
                    if got.len() > expect.len() || got[..] != expect[..got.len()] { break; }
                }
                let bad = got.len() > expect.len() || got[..] != expect[..got.len().min(expect.len())];
                let bad = bad || got.len() < expect.len();
                if bad {
                    let at = got.iter().zip(expect.iter()).position(|(a, b)| a != b).unwrap_or(expect.len().min(got.len()));
                    s.done();
                    found(prop, what.into(), format!("the bytes received differ from the response at offset {} (received so far: {})", at, got.len()), "exactly the serialised response, each byte once".into());
                }
            }
            s.done();
        }
        // H7: answers supplied while earlier ones are partly flushed keep the order the application supplied
        {
            let what = "one client pipelines /o/r0 /o/r1 /o/r2; the application answers r0 and r1; the server is polled once; r2 is answered; everything is flushed";
            let mut s = Srv::new("C07h7");
            let mut c = s.connect(prop, what);
            let _ = c.write_all(b"GET /o/r0 HTTP/1.1\r\n\r\nGET /o/r1 HTTP/1.1\r\n\r\nGET /o/r2 HTTP/1.1\r\n\r\n");
            s.pump(prop, what);
            if s.outstanding.len() == 3 {
                s.answer("/o/r0"); s.answer("/o/r1");
                if ready(&s.server) { if let Ok(v) = s.server.requests() { s.outstanding.extend(v); } }
                s.answer("/o/r2");
                s.pump(prop, what);
                let mut w = vec![]; peek_some(&mut c, &mut w);
                let t = String::from_utf8_lossy(&w).to_string();
                let pos: Vec<Option<usize>> = ["echo:/o/r0", "echo:/o/r1", "echo:/o/r2"].iter().map(|k| t.find(k)).collect();
                let ok = match (pos[0], pos[1], pos[2]) { (Some(a), Some(b), Some(c2)) => a < b && b < c2, _ => false } && t.matches("echo:/o/").count() == 3;
                if !ok { s.done(); found(prop, what.into(), format!("the client received {}", esc(&w)), "the answers to r0, r1, r2 in that order, once each".into()); }
            }
            s.done();
        }
        // H6: at full capacity a hung-up connection that is still owed a response keeps its slot (and its descriptor number);
        //     the eleventh client is refused, and the late answer reaches nobody
        {
            let what = "ten clients connected; client 3 has /c3/r0 with the application and closes; an eleventh client connects; /c3/r0 is answered late";
            let mut s = Srv::new("C07h6");
            let mut cl = vec![];
            for _ in 0..10 { cl.push(Some(s.connect(prop, what))); }
            let _ = cl[3].as_mut().unwrap().write_all(b"GET /c3/r0 HTTP/1.1\r\n\r\n");
            s.pump(prop, what);
            if s.outstanding.len() == 1 {
                cl[3] = None;
                s.pump(prop, what);
                let mut c10 = s.connect(prop, what);
                s.answer("/c3/r0");
                s.pump(prop, what);
                let mut w = vec![]; peek_some(&mut c10, &mut w);
                if String::from_utf8_lossy(&w).contains("echo:/c3/r0") { s.done(); found(prop, what.into(), format!("the eleventh client received {}", esc(&w)), "at most the 503 refusal: the answer to client 3 is dropped".into()); }
                for c in cl.iter_mut().flatten() { let mut w = vec![]; peek_some(c, &mut w); if String::from_utf8_lossy(&w).contains("echo:/c3/r0") { s.done(); found(prop, what.into(), format!("another client received {}", esc(&w)), "nobody receives the late answer".into()); } }
            }
            s.done();
        }
        // H1: a client with two requests in flight gets one answer, closes WITHOUT reading it (ECONNRESET/EPOLLERR on the
        //     server side) while the other request is still with the application; a new client connects (descriptor number
        //     reused); the late answer must not reach it
        // H2: the same with shutdown(Read) + write failure instead of the reset
        for variant in 0..2 {
            let what = if variant == 0 { "client 1: /c1/r0 /c1/r1 yielded; /c1/r0 answered and written; client 1 closes without reading, /c1/r1 still in flight; client 2 connects; /c1/r1 answered late" }
                       else { "client 1: /c1/r0 /c1/r1 yielded; client 1 shutdown(Read); /c1/r0 answered (write fails); client 1 closes; client 2 connects; /c1/r1 answered late" };
            let mut s = Srv::new(if variant == 0 { "C07h1" } else { "C07h2" });
            let mut c1 = s.connect(prop, what);
            let _ = c1.write_all(b"GET /c1/r0 HTTP/1.1\r\n\r\nGET /c1/r1 HTTP/1.1\r\n\r\n");
            s.pump(prop, what);
            if s.outstanding.len() != 2 { s.done(); continue; }
            if variant == 1 { c1.shutdown(std::net::Shutdown::Read).unwrap(); }
            s.answer("/c1/r0");
            s.pump(prop, what);
            drop(c1);
            s.pump(prop, what);
            // "with any delay": the server is polled many more times (nothing is ready) before the application answers
            for _ in 0..60 { if let Ok(v) = { let mut p = libc::pollfd { fd: s.server.epoll().as_raw_fd(), events: libc::POLLIN, revents: 0 }; if unsafe { libc::poll(&mut p, 1, 0) } > 0 { s.server.requests() } else { Ok(vec![]) } } { s.outstanding.extend(v); } }
            let mut c2 = s.connect(prop, what);
            s.answer("/c1/r1");
            s.pump(prop, what);
            let mut w = vec![]; peek_some(&mut c2, &mut w);
            s.done();
            if !w.is_empty() { found(prop, what.into(), format!("client 2, which sent nothing, received {}", esc(&w)), "nothing: the late answer is dropped".into()); }
        }
    }
    if prop == "C09" {
        // H3: the client half-closes (shutdown(Write)) while an answer is queued but not yet written and another request is in flight;
        //     once everything yielded from it has been answered the connection must be released, although the client keeps its socket
        // H4: clients that stop reading (shutdown(Read)) are found out by a failing write; each is released once answered
        for variant in 0..2 {
            let what = if variant == 0 { "ten clients in turn: /x/r0 /x/r1 yielded; /x/r0 answered (queued); client shutdown(Write), keeps the socket; poll; /x/r1 answered; poll - then an eleventh client does a round trip" }
                       else { "ten clients in turn: /x/r0 yielded; client shutdown(Read), keeps the socket; /x/r0 answered; poll (write fails) - then an eleventh client does a round trip" };
            let mut s = Srv::new(if variant == 0 { "C09h3" } else { "C09h4" });
            let mut keep = vec![];
            let mut inconclusive = false;
            for k in 0..10 {
                let mut c = s.connect(prop, what);
                let (u0, u1) = (format!("/x{}/r0", k), format!("/x{}/r1", k));
                if variant == 0 { let _ = c.write_all(format!("GET {} HTTP/1.1\r\n\r\nGET {} HTTP/1.1\r\n\r\n", u0, u1).as_bytes()); }
                else { let _ = c.write_all(format!("GET {} HTTP/1.1\r\n\r\n", u0).as_bytes()); }
                s.pump(prop, what);
                if variant == 0 {
                    if !s.answer(&u0) { inconclusive = true; break; }
                    c.shutdown(std::net::Shutdown::Write).unwrap();
                    s.pump(prop, what);
                    s.answer(&u1);
                    s.pump(prop, what);
                } else {
                    c.shutdown(std::net::Shutdown::Read).unwrap();
                    if !s.answer(&u0) { inconclusive = true; break; }
                    s.pump(prop, what);
                }
                keep.push(c);
            }
            if !inconclusive {
                if let Err(e) = round_trip(&mut s, prop, what, "/eleventh") { s.done(); found(prop, what.into(), e, "the eleventh client is served: the ten connections were released once answered".into()); }
            }
            s.done();
            drop(keep);
        }
    }
}

fn search_server(prop: &str, _budget: usize) {
    if prop == "C07" { search_server_batch(); }
    search_server_histories(prop);
    // the history that exposed the C09 defect, and a descriptor-reuse history for C07
    let path = format!("/tmp/wit_{}_{}.sock", prop, std::process::id());
    let _ = std::fs::remove_file(&path);
    let mut server = HttpServer::new(&path).unwrap();
    server.start_server().unwrap();
    let mut bad = UnixStream::connect(&path).unwrap();
    let mut good = UnixStream::connect(&path).unwrap();
    for _ in 0..3 { if ready(&server) { let _ = server.requests(); } }
    let _ = bad.write_all(b"GET /a HTTP/1.1\r\n\r\nGET /b HTTP/1.1\r\n\r\n");
    let mut reqs = vec![];
    for _ in 0..5 { if ready(&server) { if let Ok(v) = server.requests() { reqs.extend(v); } } }
    if reqs.len() != 2 { let _ = std::fs::remove_file(&path); println!("{{\"status\":\"not-found\",\"tried\":0}}"); return; }
    bad.shutdown(std::net::Shutdown::Read).unwrap();
    let r1 = reqs.remove(0);
    let mut resp = Response::new(Version::Http11, StatusCode::OK);
    resp.set_body(Body::new("x".to_string()));
    let mut o = Some(resp);
    let _ = server.respond(r1.process(|_| o.take().unwrap()));
    let mut tried = 0;
    for i in 0..6 {
        if !ready(&server) { break; }
        tried += 1;
        if let Err(e) = server.requests() {
            let _ = std::fs::remove_file(&path);
            found(prop, "client A: two pipelined GETs, shutdown(Read); application answers the first".into(), format!("poll {}: requests() = Err({})", i, e), "Ok(..)".into());
        }
    }
    let _ = good.write_all(b"GET /good HTTP/1.1\r\n\r\n");
    let mut served = false;
    let t_good = std::time::Instant::now();
    while !served && t_good.elapsed().as_millis() < 10_000 { if ready(&server) { tried += 1; match server.requests() { Ok(v) => { for r in v { if r.request.uri().get_abs_path() == "/good" { served = true; let _ = server.respond(r.process(|_| Response::new(Version::Http11, StatusCode::NoContent))); } } } Err(e) => { let _ = std::fs::remove_file(&path); found(prop, "second client sends GET /good".into(), format!("requests() = Err({})", e), "the request is yielded".into()); } } } }
    if !served { let _ = std::fs::remove_file(&path); found(prop, "second client sends GET /good after client A wedged".into(), "never yielded".into(), "yielded".into()); }
    // late answer to A's second request must be dropped, not delivered to anybody else
    let r2 = reqs.remove(0);
    let _ = server.respond(r2.process(|_| { let mut r = Response::new(Version::Http11, StatusCode::OK); r.set_body(Body::new("LATE".to_string())); r }));
    for _ in 0..6 { if ready(&server) { let _ = server.requests(); } }
    good.set_nonblocking(true).unwrap();
    let mut b = [0u8; 4096];
    let mut got = vec![];
    std::thread::sleep(std::time::Duration::from_millis(50));
    while let Ok(n) = good.read(&mut b) { if n == 0 { break; } got.extend_from_slice(&b[..n]); }
    let _ = std::fs::remove_file(&path);
    if String::from_utf8_lossy(&got).contains("LATE") {
        found(prop, "late response for a closed connection".into(), format!("client B received {}", esc(&got)), "only its own 204".into());
    }
    println!("{{\"status\":\"not-found\",\"tried\":{}}}", tried);
}

fn main() {
    let args: Vec<String> = std::env::args().collect();
    let prop = args.get(1).map(|s| s.as_str()).unwrap_or("C01");
    {
        // a panic raised INSIDE the crate under test (not in this program) is a finding of the running search: no entry
        // point may panic on any input.  Searches that expect panics (C03) install their own hook and use catch_unwind.
        let p = match prop { "C04s" => "C04".to_string(), x => x.to_string() };
        std::panic::set_hook(Box::new(move |info| {
            let loc = info.location().map(|l| format!("{}:{}", l.file(), l.line())).unwrap_or_default();
            if loc.contains("wit.rs") { eprintln!("witness program panicked at {}: {}", loc, info); return; }
            let msg = if let Some(m) = info.payload().downcast_ref::<&str>() { m.to_string() } else if let Some(m) = info.payload().downcast_ref::<String>() { m.clone() } else { "panic".to_string() };
            println!("{{\"status\":\"found\",\"property\":\"{}\",\"input\":\"the input being tried by the bounded search for {} when the crate panicked (deterministic: seeded search)\",\"observed\":\"panic at {}: {}\",\"expected\":\"a value or an error, never a panic\"}}", p, p, json_safe(&loc), json_safe(&msg));
            std::process::exit(0);
        }));
    }
    let budget: usize = args.get(2).and_then(|s| s.parse().ok()).unwrap_or(2000);
    match prop {
        "C01" | "C02" | "C04" | "C13" => search_stream(prop, budget),
        "C03" => search_c03(budget),
        "C05" => search_c05(budget),
        "C06" => search_c06(budget),
        "C07" | "C09" => search_server(prop, budget),
        "C04s" => { search_server_limits(); println!("{{\"status\":\"not-found\",\"tried\":7}}"); }
        "C11" => search_c11("C11", budget),
        "C12" => search_c12(budget),
        "C16" => search_c16(budget),
        "C14" => search_c14(budget),
        "C15" => search_c15(budget),
        "C17" => search_c17(budget),
        _ => println!("{{\"status\":\"not-found\",\"tried\":0}}"),
    }
}
