#!/usr/bin/env python3
"""Systematic single-token mutation sweep over the functions under contract (scratch copies only).

For every line of every verified function, apply simple mutation operators (relational, arithmetic,
constant, boolean, statement deletion); run the unit(s) that verify the function; list the SURVIVORS
(mutants on which every obligation still verifies).  Survivors are either equivalent mutants or holes
in the contracts -- they need a human look.  Usage: mutation_sweep.py [unit ...] > report
"""
import json
import os
import re
import shutil
import sys
import tempfile
import concurrent.futures as cf

sys.path.insert(0, os.path.dirname(os.path.dirname(os.path.abspath(__file__))))
from vf.unitrun import run_unit  # noqa: E402
from vf.gen import UnitGen  # noqa: E402
from vf import config  # noqa: E402

SRC = os.environ.get('VERIF_SRC_ROOT', '/repo')
VERIF = os.path.dirname(os.path.dirname(os.path.abspath(__file__)))

OPS = [
    (r'(?<![<>=!\-])>=(?!=)', '>'), (r'(?<![<>=!\-])>(?![>=])', '>='),
    (r'(?<![<>=!])<=(?!=)', '<'), (r'(?<![<>=!\-])<(?![<=])', '<='),
    (r'==', '!='), (r'!=', '=='),
    (r'&&', '||'), (r'\|\|', '&&'),
    (r'(?<![\w.])\+(?![=+])', '-'), (r'(?<![\w.>\-])-(?![=>\-])', '+'),
    (r'\bCRLF_LEN\b', '1'), (r'\b0\b', '1'), (r'\b1\b', '0'), (r'\b2\b', '3'),
    (r'\btrue\b', 'false'), (r'\bfalse\b', 'true'),
    (r'!self\.', 'self.'), (r'\.is_none\(\)', '.is_some()'), (r'\.is_some\(\)', '.is_none()'),
    (r'push_back', 'push_front'), (r'pop_front', 'pop_back'),
]


def fn_units():
    """function path -> (file, [units in which it is verified], first line, last line)"""
    out = {}
    for u in ['conn', 'request', 'client', 'response', 'router', 'headers', 'server']:
        g = UnitGen(SRC, os.path.join(VERIF, 'units')).generate(u)
        for fid, info in g.fns.items():
            if info['mode'] != 'verify':
                continue
            n = info['src_text'].count('\n')
            e = out.setdefault(info['path'], dict(file=info['file'], units=[], first=info['line'], last=info['line'] + n))
            e['units'].append(u)
    return out


def mutants_for(path, meta, text_lines):
    res = []
    for ln in range(meta['first'], meta['last'] + 1):
        line = text_lines[ln - 1]
        code = line.split('//')[0]
        if not code.strip() or code.strip().startswith(('fn ', 'pub fn', '#[', '///')):
            continue
        for pat, rep in OPS:
            for m in re.finditer(pat, code):
                new = code[:m.start()] + rep + code[m.end():] + line[len(code):]
                res.append((ln, '%s -> %s @col%d' % (m.group(0), rep, m.start()), new))
        s = code.strip()
        if s.endswith(';') and (re.match(r'(self\.[\w.]+|\*?\w+)\s*[-+]?=[^=]', s) or re.match(r'self\.[\w.]+\(.*\);$', s)) and 'let ' not in s:
            res.append((ln, 'delete statement', re.match(r'\s*', line).group(0) + '// (deleted) ' + s))
    return res


def run_one(args):
    path, meta, ln, desc, newline, idx = args
    d = tempfile.mkdtemp(prefix='sweep_')
    try:
        shutil.copytree(os.path.join(SRC, 'src'), os.path.join(d, 'src'))
        p = os.path.join(d, meta['file'])
        lines = open(p).read().split('\n')
        old = lines[ln - 1]
        lines[ln - 1] = newline
        open(p, 'w').write('\n'.join(lines))
        verdict = 'survived'
        detail = []
        for u in meta['units']:
            r = run_unit(u, repo=d, suffix='_sweep%d' % idx, threads=2,
                         rlimit=config.UNIT_RLIMIT.get(u, 60))
            if r.failures:
                verdict = 'killed'
                detail = sorted(set(f['clause'] for f in r.failures if f.get('role') != 'derived'))[:3]
                break
            if r.status in ('undecided', 'partial'):
                verdict = 'undecided'
                detail = [r.undecided[0][:100]] if r.undecided else []
        for u in meta['units']:
            try:
                os.remove(os.path.join(VERIF, 'gen', '%s_sweep%d.rs' % (u, idx)))
            except OSError:
                pass
        return dict(fn=path, file=meta['file'], line=ln, op=desc, old=old.strip(), new=newline.strip(), verdict=verdict, detail=detail)
    finally:
        shutil.rmtree(d, ignore_errors=True)


def main():
    only = set(sys.argv[1:])
    fns = fn_units()
    jobs = []
    for path, meta in sorted(fns.items()):
        if only and not (set(meta['units']) & only):
            continue
        text_lines = open(os.path.join(SRC, meta['file'])).read().split('\n')
        for ln, desc, newline in mutants_for(path, meta, text_lines):
            jobs.append((path, meta, ln, desc, newline, len(jobs)))
    print('%d mutants' % len(jobs), file=sys.stderr)
    results = []
    with cf.ThreadPoolExecutor(max_workers=6) as ex:
        for k, r in enumerate(ex.map(run_one, jobs)):
            results.append(r)
            if r['verdict'] == 'survived':
                print('SURVIVED %s %s:%d [%s]  %s   ==>   %s' % (r['fn'], r['file'], r['line'], r['op'], r['old'], r['new']), flush=True)
            if (k + 1) % 25 == 0:
                print('.. %d/%d' % (k + 1, len(jobs)), file=sys.stderr, flush=True)
    tot = len(results)
    by = {}
    for r in results:
        by[r['verdict']] = by.get(r['verdict'], 0) + 1
    print('TOTAL %d: %s' % (tot, by))
    json.dump(results, open(os.path.join(VERIF, 'build', 'mutation_sweep.json'), 'w'), indent=1)


if __name__ == '__main__':
    main()
