#!/usr/bin/env python3
"""seed_eval.py <PROP> <dir with patch.diff, demo.rs, notes.md> <name> [--all]

1. confirms in a scratch worktree that the change compiles, passes the existing suite, and that the
   demonstration fails with it and passes without it;
2. stores it as /verif/seeded/<name>/ (patch.diff, demo.rs, meta.json);
3. applies it to /repo, runs the property's check (and with --all every claimed check), reverts /repo.
"""
import json
import os
import re
import shutil
import subprocess
import sys
import time

# VERIF_DIR / VERIF_REPO let several evaluations run side by side on private copies (tools/par_eval.sh)
VERIF = os.environ.get('VERIF_DIR', '/verif')
REPO = os.environ.get('VERIF_REPO', '/repo')


def sh(cmd, cwd=None, timeout=1800, env=None):
    p = subprocess.run(cmd, shell=True, cwd=cwd, capture_output=True, text=True, timeout=timeout, env=env)
    return p.returncode, p.stdout + p.stderr


def main():
    prop, src, name = sys.argv[1:4]
    run_all = '--all' in sys.argv
    skip_confirm = '--skip-confirm' in sys.argv
    dst = os.path.join(VERIF, 'seeded', name)
    os.makedirs(dst, exist_ok=True)
    if src != '-':
        shutil.copy(os.path.join(src, 'patch.diff'), os.path.join(dst, 'patch.diff'))
        shutil.copy(os.path.join(src, 'demo.rs'), os.path.join(dst, 'demo.rs'))
        notes = open(os.path.join(src, 'notes.md')).read() if os.path.exists(os.path.join(src, 'notes.md')) else ''
    else:
        notes = json.load(open(os.path.join(dst, 'meta.json'))).get('needs_to_manifest', '')
    meta = dict(name=name, property=prop, source='independent sub-agent given only the property text and a scratch worktree',
                needs_to_manifest=notes[:3000])
    old_meta = os.path.join(dst, 'meta.json')
    if skip_confirm and os.path.exists(old_meta):
        try:
            om = json.load(open(old_meta))
            for k in ('patch_applies', 'suite_with_change', 'suite_passes_with_change', 'demo_with_change', 'demo_fails_with_change',
                      'demo_without_change', 'demo_passes_without_change', 'confirmed'):
                if k in om:
                    meta[k] = om[k]
        except ValueError:
            pass
    env = dict(os.environ, CARGO_TARGET_DIR=os.environ.get('VERIF_EV_TARGET', '/tmp/ev_target'), CARGO_NET_OFFLINE='true')
    if not skip_confirm:
        import fcntl
        _lock = open('/tmp/seed_eval_confirm.lock', 'w')
        fcntl.flock(_lock, fcntl.LOCK_EX)   # the repository's tests bind fixed socket paths: one confirmation at a time
        wt = os.environ.get('VERIF_EV_DIR', '/tmp/ev') + '/' + name
        sh('git -C %s worktree remove --force %s' % (REPO, wt))
        shutil.rmtree(wt, ignore_errors=True)
        os.makedirs(os.environ.get('VERIF_EV_DIR', '/tmp/ev'), exist_ok=True)
        rc, out = sh('git -C %s worktree add -q --detach %s HEAD' % (REPO, wt))
        assert rc == 0, out
        try:
            rc, out = sh('git apply %s' % os.path.join(dst, 'patch.diff'), cwd=wt)
            meta['patch_applies'] = rc == 0
            rc, out = sh('cargo test --offline 2>&1 | grep "test result"', cwd=wt, env=env)
            if 'FAILED' in out:
                # the suite has timing-sensitive socket tests (test_kill_switch); a failure must reproduce to count
                rc, out2 = sh('cargo test --offline 2>&1 | grep "test result"', cwd=wt, env=env)
                meta['suite_first_run_had_failure'] = out.strip()
                out = out2
            meta['suite_with_change'] = out.strip()
            meta['suite_passes_with_change'] = ('failed' in out and all(' 0 failed' in l for l in out.strip().split('\n') if l)) and out.count('test result: ok') >= 2
            os.makedirs(os.path.join(wt, 'tests'), exist_ok=True)
            shutil.copy(os.path.join(dst, 'demo.rs'), os.path.join(wt, 'tests', 'seed_demo.rs'))
            rc1, out1 = sh('cargo test --offline --test seed_demo 2>&1 | tail -5', cwd=wt, env=env)
            meta['demo_with_change'] = out1.strip()[-400:]
            meta['demo_fails_with_change'] = 'test result: FAILED' in out1 or 'panicked' in out1
            sh('git checkout -- src', cwd=wt)
            rc2, out2 = sh('cargo test --offline --test seed_demo 2>&1 | tail -5', cwd=wt, env=env)
            meta['demo_without_change'] = out2.strip()[-400:]
            meta['demo_passes_without_change'] = 'test result: ok' in out2
        finally:
            sh('git -C %s worktree remove --force %s' % (REPO, wt))
            shutil.rmtree(wt, ignore_errors=True)
        fcntl.flock(_lock, fcntl.LOCK_UN)
        meta['confirmed'] = bool(meta.get('patch_applies') and meta.get('suite_passes_with_change') and meta.get('demo_fails_with_change') and meta.get('demo_passes_without_change'))
    # run the checks against it
    rc, out = sh('git -C %s status --porcelain -- src' % REPO)
    assert out.strip() == '', '/repo is dirty: ' + out
    rc, out = sh('git -C %s apply %s' % (REPO, os.path.join(dst, 'patch.diff')))
    assert rc == 0, out
    results = {}
    try:
        if run_all:
            t0 = time.time()
            rc, out = sh('./check ALL --tier quick', cwd=VERIF, timeout=6000)
            cur = {}
            for l in out.split('\n'):
                m = re.match(r'(VIOLATION|KNOWN-FINDING:|OK) property=(C\d+)', l)
                if m:
                    cur.setdefault(m.group(2), []).append(l[:400])
                elif l.startswith('UNDECIDED'):
                    cur.setdefault('_undecided', []).append(l[:300])
            m = json.load(open(os.path.join(VERIF, 'MANIFEST.json')))
            for c in m['checks']:
                p = c['property_id']
                lines = cur.get(p, [])
                rcp = 1 if any(l.startswith('VIOLATION') for l in lines) else (0 if any(l.startswith('OK') for l in lines) else 2)
                results[p] = dict(rc=rcp, lines=lines[:8])
            results['_undecided'] = sorted(set(cur.get('_undecided', [])))[:10]
            results['_wall'] = round(time.time() - t0, 1)
            print('violations:', sorted(p for p in results if p.startswith('C') and results[p]['rc'] == 1),
                  'undecided:', sorted(p for p in results if p.startswith('C') and results[p]['rc'] == 2))
        else:
            t0 = time.time()
            rc, out = sh('./check %s --tier quick' % prop, cwd=VERIF, timeout=3000)
            lines = [l for l in out.split('\n') if l.startswith(('VIOLATION', 'KNOWN-FINDING', 'UNDECIDED', 'OK '))]
            results[prop] = dict(rc=rc, lines=[l[:400] for l in lines][:12], wall=round(time.time() - t0, 1))
            print(prop, rc, *[l[:300] for l in lines[:6]], sep='\n   ')
    finally:
        sh('git -C %s checkout -- .' % REPO)
    meta['checks'] = results
    meta['detected_by_own_check'] = results[prop]['rc'] == 1
    meta['ran'] = 'tools/seed_eval.py %s %s %s' % (prop, src, name)
    json.dump(meta, open(os.path.join(dst, 'meta.json'), 'w'), indent=1)
    print('confirmed=%s detected=%s' % (meta.get('confirmed'), meta['detected_by_own_check']))


if __name__ == '__main__':
    main()
