#!/bin/sh
# benign_eval.sh <patch>... : apply each behaviour-preserving patch to /repo, run every check, revert.
V=${VERIF_DIR:-/verif}; R=${VERIF_REPO:-/repo}
cd $V
for p in "$@"; do
  echo "=== $p"
  git -C $R status --porcelain -- src | grep -q . && { echo "/repo dirty"; exit 1; }
  git -C $R apply "$p" || { echo "patch does not apply"; continue; }
  ./check ALL $CHECK_FLAGS 2>&1 | grep -E "^(VIOLATION|UNDECIDED|OK )" | cut -c1-330
  git -C $R checkout -- .
done
