#!/bin/sh
# benign_eval.sh <patch>... : apply each behaviour-preserving patch to /repo, run every check, revert.
cd /verif
for p in "$@"; do
  echo "=== $p"
  git -C /repo status --porcelain -- src | grep -q . && { echo "/repo dirty"; exit 1; }
  git -C /repo apply "$p" || { echo "patch does not apply"; continue; }
  ./check ALL $CHECK_FLAGS 2>&1 | grep -E "^(VIOLATION|UNDECIDED|OK )" | cut -c1-330
  git -C /repo checkout -- .
done
