#!/usr/bin/env python3
"""Mutation self-test of the contracts (thorough-tier companion; runs on scratch copies, never on /repo).

Each entry: (name, unit, file, old text, new text, properties expected to fire or None for a harmless edit).
A unit is run on a scratch copy of /repo/src with the edit applied; the failed clauses' tags are compared
with the expectation.  Usage: tools/selftest_mutants.py [name-substring]
"""
import os
import shutil
import sys
import tempfile

sys.path.insert(0, os.path.dirname(os.path.dirname(os.path.abspath(__file__))))
from vf.unitrun import run_unit  # noqa: E402

C = 'src/connection.rs'
S = 'src/server.rs'
R = 'src/request.rs'
P = 'src/response.rs'
T = 'src/router.rs'
M = 'src/common/mod.rs'
H = 'src/common/headers.rs'

MUTANTS = [
    # ---- connection.rs read path
    ('shift-copy-index', 'conn', C, 'self.buffer[cursor] = self.buffer[line_start_index + cursor];', 'self.buffer[cursor] = self.buffer[line_start_index + cursor - 1];', {'C01'}),
    ('shift-read-cursor', 'conn', C, '        self.read_cursor = delta_bytes;\n        Ok(())', '        self.read_cursor = delta_bytes + 1;\n        Ok(())', {'C01', 'C03'}),
    ('shift-skip-when-zero', 'conn', C, 'if line_start_index != 0 {\n            // Move the bytes', 'if line_start_index > 1 {\n            // Move the bytes', {'C01'}),
    ('body-ge', 'conn', C, 'if self.body_bytes_to_be_read > start_to_end {', 'if self.body_bytes_to_be_read >= start_to_end {', {'C01', 'C02', 'C03'}),
    ('body-forget-cursor-reset', 'conn', C, '            self.read_cursor = 0;\n\n            return Ok(false);', '            return Ok(false);', {'C01', 'C02'}),
    ('body-left-not-zeroed', 'conn', C, '        *line_start_index = line_end;\n        self.body_bytes_to_be_read = 0;', '        *line_start_index = line_end;', {'C01', 'C02', 'C03'}),
    ('reqline-crlf-len', 'conn', C, '*start = *start + line_end_index + CRLF_LEN;', '*start = *start + line_end_index + CRLF_LEN - 1;', {'C01', 'C02'}),
    ('reqline-drop-start-zero', 'conn', C, 'if end == BUFFER_SIZE && *start == 0 {', 'if end == BUFFER_SIZE {', {'C01', 'C04'}),
    ('hdr-limit-ge', 'conn', C, 'if request.headers.content_length() as usize > self.payload_max_size {', 'if request.headers.content_length() as usize >= self.payload_max_size {', {'C04'}),
    ('hdr-limit-args-swapped', 'conn', C, 'RequestError::SizeLimitExceeded(\n                                self.payload_max_size,\n                                request.headers.content_length() as usize,', 'RequestError::SizeLimitExceeded(\n                                request.headers.content_length() as usize,\n                                self.payload_max_size,', {'C04'}),
    ('hdr-expect-always', 'conn', C, 'if request.headers.expect() {\n                        // Send expect.', 'if true {\n                        // Send expect.', {'C13'}),
    ('hdr-expect-fixed-version', 'conn', C, 'Response::new(request.http_version(), StatusCode::Continue);', 'Response::new(Version::Http11, StatusCode::Continue);', {'C13'}),
    ('hdr-expect-wrong-status', 'conn', C, 'Response::new(request.http_version(), StatusCode::Continue);', 'Response::new(request.http_version(), StatusCode::OK);', {'C13'}),
    ('hdr-some0-removed-ready', 'conn', C, 'if request.headers.content_length() == 0 {\n                    self.state = ConnectionState::RequestReady;', 'if request.headers.content_length() == 1 {\n                    self.state = ConnectionState::RequestReady;', {'C01', 'C02', 'C03'}),
    ('hdr-ignore-all-errors', 'conn', C, 'Err(e) => return Err(ConnectionError::ParseError(e)),\n                };\n\n                // Update the `line_start_index` to where we finished parsing.', 'Err(_e) => {}\n                };\n\n                // Update the `line_start_index` to where we finished parsing.', {'C02'}),
    ('ready-skip-files', 'conn', C, '                    pending_request.files = self.files.drain(..).collect();\n', '', {'C12'}),
    ('ready-push-front', 'conn', C, 'self.parsed_requests.push_back(pending_request);', 'self.parsed_requests.push_front(pending_request);', {'C01', 'C02'}),
    ('readbytes-files-after-eof-check', 'conn', C, '        self.files.extend(new_files);\n\n        // If the read returned 0 then the client has closed the connection.\n        if bytes_read == 0 {\n            return Err(ConnectionError::ConnectionClosed);\n        }', '        if bytes_read == 0 {\n            return Err(ConnectionError::ConnectionClosed);\n        }\n        self.files.extend(new_files);', {'C12'}),
    ('reset-keeps-read-cursor', 'conn', C, '        self.pending_request = None;\n        self.read_cursor = 0;', '        self.pending_request = None;', {'C11'}),
    ('reset-not-called', 'conn', C, '            self.reset_parser();\n', '', {'C11'}),
    ('tryread-second-read', 'conn', C, '        let end_cursor = self.read_bytes()?;\n\n        let result', '        let _first = self.read_bytes()?;\n        let end_cursor = self.read_bytes()?;\n\n        let result', {'C03', 'C01'}),
    # ---- connection.rs write path
    ('write-drain-off-by-one', 'conn', C, 'response_buffer_vec.drain(..bytes_written);', 'response_buffer_vec.drain(..bytes_written - 1);', {'C06'}),
    ('write-eintr-closes', 'conn', C, 'Err(e) if e.kind() == std::io::ErrorKind::Interrupted => {}', 'Err(e) if e.kind() == std::io::ErrorKind::Interrupted => connection_closed = true,', {'C06'}),
    ('write-zero-not-closed', 'conn', C, 'Ok(0) => connection_closed = true,', 'Ok(0) => {}', {'C06'}),
    ('write-keep-buffer-when-full', 'conn', C, '        } else if response_fully_written {\n            self.response_buffer.take();\n        }', '        }', {'C06', 'C03'}),
    ('clear-keeps-buffer', 'conn', C, '        self.response_queue.clear();\n        self.response_buffer.take();', '        self.response_queue.clear();', {'C06'}),
    ('enqueue-front', 'conn', C, 'self.response_queue.push_back(response);\n    }', 'self.response_queue.push_front(response);\n    }', {'C06'}),
    ('pending-only-queue', 'conn', C, 'self.response_buffer.is_some() || !self.response_queue.is_empty()', '!self.response_queue.is_empty()', {'C06'}),
    # ---- request.rs
    ('rl-uri-start', 'request', R, 'let uri_start = method_end.checked_add(1)', 'let uri_start = method_end.checked_add(0)', {'C02'}),
    ('rl-order', 'request', R, '            method: Method::try_from(method)?,\n            uri: Uri::try_from(uri)?,', '            uri: Uri::try_from(uri)?,\n            method: Method::try_from(method)?,', {'C02'}),
    ('uri-empty-ok', 'request', R, 'if bytes.is_empty() {\n            return Err(RequestError::InvalidUri("Empty URI not allowed."));\n        }', '', {'C02'}),
    ('oneshot-max-gt', 'request', R, 'if byte_stream.len() >= limit {', 'if byte_stream.len() > limit {', {'C14'}),
    ('oneshot-get-body-ok', 'request', R, 'if request_line.method == Method::Get {\n                            return Err(RequestError::InvalidRequest);\n                        }', '', {'C14'}),
    ('oneshot-headers-end', 'request', R, 'let headers_end = headers_end - CRLF_LEN;', 'let headers_end = headers_end - CRLF_LEN - 1;', {'C14', 'C03'}),
    ('oneshot-minlen', 'request', R, 'Method::Get.raw().len() + 1 + Version::Http10.raw().len() + 2', 'Method::Get.raw().len() + 1 + Version::Http10.raw().len() + 1', {'C03', 'C14'}),
    # ---- response.rs
    ('new-nocontent-zero', 'response', P, 'StatusCode::Continue | StatusCode::NoContent => None,', 'StatusCode::Continue => None,', {'C05', 'C13'}),
    ('new-ok-none', 'response', P, 'StatusCode::Continue | StatusCode::NoContent => None,', 'StatusCode::Continue | StatusCode::NoContent | StatusCode::OK => None,', {'C05', 'C13'}),
    ('set-body-no-length', 'response', P, '        self.headers.set_content_length(Some(body.len() as i32));\n', '', {'C05'}),
    ('set-encoding-clobbers', 'response', P, '    pub fn set_encoding(&mut self) {\n        self.accept_encoding = true;', '    pub fn set_encoding(&mut self) {\n        self.deprecation = false;\n        self.accept_encoding = true;', {'C05'}),
    ('hdr-ctype-always', 'response', P, '        if let Some(content_length) = self.content_length {\n            buf.write_all(Header::ContentType.raw())?;\n            buf.write_all(&[COLON, SP])?;\n            buf.write_all(self.content_type.as_str().as_bytes())?;\n            buf.write_all(&[CR, LF])?;\n', '        buf.write_all(Header::ContentType.raw())?;\n        buf.write_all(&[COLON, SP])?;\n        buf.write_all(self.content_type.as_str().as_bytes())?;\n        buf.write_all(&[CR, LF])?;\n        if let Some(content_length) = self.content_length {\n', {'C05'}),
    ('hdr-no-blank-line', 'response', P, '                buf.write_all(b"identity")?;\n                buf.write_all(&[CR, LF])?;\n            }\n        }\n\n        buf.write_all(&[CR, LF])\n    }', '                buf.write_all(b"identity")?;\n                buf.write_all(&[CR, LF])?;\n            }\n        }\n\n        Ok(())\n    }', {'C05'}),
    # ---- server.rs ClientConnection
    ('cc-isdone-no-inflight', 'client', S, '            && self.in_flight_response_count == 0', '', {'C07', 'C09'}),
    ('cc-enqueue-on-closed', 'client', S, '        if self.state != ClientConnectionState::Closed {\n            self.connection.enqueue_response(response);\n        }', '        self.connection.enqueue_response(response);', {'C07'}),
    ('cc-read-count-plus-one', 'client', S, '.checked_add(parsed_requests.len() as u32)', '.checked_add(parsed_requests.len() as u32 + 1)', {'C07', 'C03'}),
    ('cc-read-no-discard', 'client', S, '                while let Some(_discarded_request) = self.connection.pop_parsed_request() {}\n', '', {'C11', 'C04'}),
    ('cc-read-eof-not-closed', 'client', S, '                self.state = ClientConnectionState::Closed;\n                // We don\'t want to propagate', '                // We don\'t want to propagate', {'C09'}),
    ('cc-write-fix-reverted', 'client', S, '        if self.state == ClientConnectionState::Closed {\n            return Ok(());\n        }\n', '', {'C09'}),
    ('cc-write-failure-not-closed', 'client', S, '                // Writing to the stream failed so it will be removed.\n                self.state = ClientConnectionState::Closed;', '                // Writing to the stream failed so it will be removed.', {'C09'}),
    ('cc-read-no-switch', 'client', S, '        if self.connection.pending_write() {\n            self.state = ClientConnectionState::AwaitingOutgoing;\n        }\n', '', {'C13'}),
    # ---- harmless edits: nothing may fire
    # ---- router.rs (C17)
    ('rt-overwrite', 'router', T, 'Entry::Occupied(_) => Err(RouteError::HandlerExist(full_path)),', 'Entry::Occupied(mut e) => { e.insert(handler); Ok(()) }', {'C17'}),
    ('rt-no-server', 'router', T, '        response.set_server(&self.server_id);\n', '', {'C17'}),
    ('rt-404-status', 'router', T, 'Response::new(Version::Http11, StatusCode::NotFound)', 'Response::new(Version::Http11, StatusCode::BadRequest)', {'C17'}),
    ('rt-404-version', 'router', T, 'Response::new(Version::Http11, StatusCode::NotFound)', 'Response::new(Version::Http10, StatusCode::NotFound)', None),
    ('rt-method-ignored', 'router', T, 'format!("{}:{}{}", method.to_str(), self.prefix, path)', 'format!("{}:{}{}", Method::Get.to_str(), self.prefix, path)', {'C17'}),
    ('rt-prefix-after-path', 'router', T, 'format!("{}:{}{}", method.to_str(), self.prefix, path)', 'format!("{}:{}{}", method.to_str(), path, self.prefix)', {'C17'}),
    ('rt-content-type-plain', 'router', T, 'media_type: MediaType::ApplicationJson,', 'media_type: MediaType::PlainText,', {'C17'}),
    ('rt-server-id-swapped', 'router', T, '            server_id,\n            prefix,', '            server_id: prefix.clone(),\n            prefix,', {'C17'}),
    ('rt-to-str-spelling', 'router', M, 'Method::Patch => "PATCH",\n        }\n    }\n}', 'Method::Patch => "PUT",\n        }\n    }\n}', {'C17'}),
    ('rt-benign-iflet', 'router', T, """        let mut response = match self.routes.get(&path) {
            Some(route) => route.handle_request(request, argument),
            None => Response::new(Version::Http11, StatusCode::NotFound),
        };""", """        let mut response = if let Some(route) = self.routes.get(&path) {
            route.handle_request(request, argument)
        } else {
            Response::new(Version::Http11, StatusCode::NotFound)
        };""", None),
    # ---- headers.rs (C15 and the properties its clauses also carry)
    ('hd-cl-u64-clamp', 'headers', H, """Header::ContentLength => match entry[1].trim().parse::<u32>() {
                            Ok(content_length) => {
                                self.content_length = content_length;""", """Header::ContentLength => match entry[1].trim().parse::<u64>() {
                            Ok(content_length) => {
                                self.content_length = content_length.min(u32::MAX as u64) as u32;""", {'C15', 'C02', 'C04'}),
    ('hd-name-no-lower', 'headers', H, '            utf8_string.make_ascii_lowercase();\n', '', {'C15', 'C13'}),
    ('hd-unsupported-fatal', 'headers', H, """                    Ok(_)
                    | Err(RequestError::HeaderError(HttpHeaderError::UnsupportedValue(_, _))) => {
                        continue
                    }""", """                    Ok(_) => {
                        continue
                    }""", {'C15', 'C14'}),
    ('hd-accept-first-wins', 'headers', H, """                            Ok(accept_type) => {
                                self.accept = accept_type;""", """                            Ok(accept_type) => {
                                if self.accept == MediaType::PlainText { self.accept = accept_type; }""", {'C15'}),
    ('hd-chunked-cleared', 'headers', H, '                            "identity" => Ok(()),', '                            "identity" => { self.chunked = false; Ok(()) }', {'C15'}),
    ('hd-custom-untrimmed', 'headers', H, """                        entry[1].trim().to_string(),
                    )?;""", """                        entry[1].to_string(),
                    )?;""", {'C15'}),
    ('hd-encoding-star-always', 'headers', H, '"*;q=0" if !headers_str.contains("identity") => {', '"*;q=0" => {', {'C15'}),
    ('hd-block-no-break', 'headers', H, """                if header_line.is_empty() {
                    break;
                }""", """                if header_line.is_empty() {
                    continue;
                }""", {'C15'}),
    ('hd-expect-sets-chunked', 'headers', H, """                            "100-continue" => {
                                self.expect = true;""", """                            "100-continue" => {
                                self.chunked = true;""", {'C15', 'C13'}),
    ('hd-media-swapped', 'headers', H, '"text/plain" => Ok(Self::PlainText),', '"text/plain" => Ok(Self::ApplicationJson),', {'C15', 'C16'}),
    ('benign-comment', 'conn', C, '        // Update `read_cursor`.', '        // Update `read_cursor` (number of carried bytes).', None),
    ('benign-reorder-reset', 'conn', C, '        self.body_vec.clear();\n        self.body_bytes_to_be_read = 0;', '        self.body_bytes_to_be_read = 0;\n        self.body_vec.clear();', None),
    ('benign-clear-loop-short', 'conn', C, 'for cursor in delta_bytes..end_cursor {', 'for cursor in delta_bytes..end_cursor - 1 {', None),
    ('benign-double-negation', 'client', S, 'if self.state != ClientConnectionState::Closed {', 'if !(self.state == ClientConnectionState::Closed) {', None),
]


def main():
    sel = sys.argv[1] if len(sys.argv) > 1 else ''
    ok = bad = 0
    for name, unit, file, old, new, expect in MUTANTS:
        if sel and sel not in name:
            continue
        d = tempfile.mkdtemp(prefix='selftest_')
        try:
            shutil.copytree(os.environ.get('VERIF_SRC', '/repo/src'), d + '/src')
            p = os.path.join(d, file)
            s = open(p).read()
            if s.count(old) < 1:
                print('%-34s SKIP (pattern not found in the current tree)' % name)
                continue
            open(p, 'w').write(s.replace(old, new, 1))
            r = run_unit(unit, repo=d, suffix='_selftest')
            tags = set()
            for f in r.failures:
                if f.get('role') == 'derived' or f['kind'] == 'framework':
                    continue
                tags |= set(f.get('tags') or [])
            clauses = sorted(set(f['clause'] for f in r.failures if f.get('role') != 'derived'))
            if expect is None:
                good = not tags
                verdict = 'quiet' if good else 'FALSE ALARM'
            else:
                good = bool(tags & expect)
                verdict = 'caught' if good else ('UNDECIDED' if r.status == 'undecided' else 'MISSED')
            ok += good
            bad += (not good)
            print('%-34s %-11s fired=%s expected=%s %s%s' % (name, verdict, sorted(tags), sorted(expect) if expect else '-', clauses[:4],
                                                          (' undecided: ' + r.undecided[0][:120]) if r.undecided else ''))
        finally:
            shutil.rmtree(d, ignore_errors=True)
    print('%d as expected, %d not' % (ok, bad))
    return 0 if bad == 0 else 1


if __name__ == '__main__':
    sys.exit(main())
