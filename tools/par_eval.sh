#!/bin/sh
# par_eval.sh <N> : create N private (verif, repo) pairs under /tmp/par/<k> so that seeded / benign patches can be
# evaluated side by side (each check run patches ITS repo copy).  Results are copied back by the caller.
N=${1:-3}
for k in $(seq 1 $N); do
  d=/tmp/par/$k
  rm -rf $d; mkdir -p $d
  git clone -q /repo $d/repo
  rsync -a --exclude .git --exclude gen --exclude replays --exclude seeded --exclude benign --exclude 'build/witness-target' /verif/ $d/verif/
  mkdir -p $d/verif/gen $d/verif/replays $d/verif/seeded $d/verif/build
  sed -i "s#path = \"/repo\"#path = \"$d/repo\"#" $d/verif/witness/Cargo.toml
  (cd $d/verif/witness && CARGO_NET_OFFLINE=true CARGO_TARGET_DIR=../build/witness-target cargo build --offline --release --quiet)
done
