#!/usr/bin/env python3
"""Regenerate the table of DESIGN.md section 9 from seeded/*/meta.json (between the SEEDED markers)."""
import glob
import json
import os
import re

VERIF = os.path.dirname(os.path.dirname(os.path.abspath(__file__)))
rows = []
caught = 0
total = 0
for f in sorted(glob.glob(os.path.join(VERIF, 'seeded', '*', 'meta.json'))):
    m = json.load(open(f))
    total += 1
    prop = m['property']
    checks = m.get('checks', {})
    own = checks.get(prop, {})
    lines = own.get('lines', [])
    obl = sorted(set(re.findall(r'obligation=(\S+)', ' '.join(lines))))
    if own.get('rc') == 1:
        verdict = 'VIOLATION'
        caught += 1
    elif own.get('rc') == 2:
        verdict = 'undecided (exit 2)'
    else:
        verdict = '**missed** (OK)'
    others = sorted(p for p, r in checks.items() if p.startswith('C') and p != prop and r.get('rc') == 1)
    und = sorted(p for p, r in checks.items() if p.startswith('C') and p != prop and r.get('rc') == 2)
    what = (m.get('summary') or m.get('needs_to_manifest', '')).strip().split('\n')
    what = next((w for w in what if w.strip() and not w.startswith('#')), '')[:160].replace('|', '/')
    wit = 'yes' if any('no-failing-input-found' not in l and l.startswith('VIOLATION') for l in lines) and own.get('rc') == 1 else ('-' if own.get('rc') != 1 else 'no')
    rows.append('| `%s` | %s | %s | %s | %s | %s | %s |' % (m['name'], prop, 'yes' if m.get('confirmed') else 'NO', verdict,
                                                          ', '.join('`%s`' % o for o in obl[:4]) or '-', wit,
                                                          (', '.join(others) or '-') + ((' (undecided: ' + ', '.join(und) + ')') if und else '')))
table = ['| change | breaks | confirmed (suite passes, demo fails/passes) | own check (quick tier) | failed obligation(s) | concrete failing input found | other checks that also report it |',
         '|---|---|---|---|---|---|---|'] + rows
table.append('')
table.append('%d of %d independently written changes are reported by the check of the property they break.' % (caught, total))
p = os.path.join(VERIF, 'DESIGN.md')
s = open(p).read()
block = '<!-- SEEDED:BEGIN -->\n' + '\n'.join(table) + '\n<!-- SEEDED:END -->'
if 'SEEDED_TABLE' in s:
    s = s.replace('SEEDED_TABLE', block)
else:
    s = re.sub(r'<!-- SEEDED:BEGIN -->.*?<!-- SEEDED:END -->', lambda m: block, s, flags=re.S)
open(p, 'w').write(s)
print('\n'.join(table[-6:]))
