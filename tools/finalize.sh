#!/bin/sh
# Run before committing: /repo must be clean, every check must pass on it, evidence must be valid and from this run.
set -e
cd /verif
test -z "$(git -C /repo status --porcelain -- src)" || { echo "/repo has local changes"; exit 1; }
./check ALL | tee /tmp/finalize.log | grep -v "^OK" && { echo "not all checks are OK"; exit 1; }
python3-vt - <<'PY'
import json, jsonschema, glob
sch = json.load(open('/root/.vp/EVIDENCE.schema.json'))
for f in sorted(glob.glob('/verif/evidence/*.json')):
    e = json.load(open(f)); jsonschema.validate(e, sch)
    c = e['coverage']; assert c['obligations'] == c['discharged'] >= 1 and e['violations'] == 0 and not c['undecided'], f
jsonschema.validate(json.load(open('/verif/MANIFEST.json')), json.load(open('/root/.vp/MANIFEST.schema.json')))
print('evidence and manifest valid')
PY
python3 tools/seed_table.py | tail -1
